"""One checkpointing segment in a fresh process:  python -m mc.seg '<json spec>'  -> RESULT<json>

spec = {
  "problem": {"kind": "forest"|"demoor"|"hendrix"|"mirjalili", "kw": {...}} | {"kind": "tab", "n": 9},
  "solver": "vi"|"pi"|"rvi"|"pvi"|"savi", "kw": {...solver kwargs...},
  "ckpt": null | {"dir":..., "f":.., "m":.., "async":..},        # for construction (first / load route)
  "route": null | "restore" | "load",  "source": dir to restore / load from,  "step": null|int,
  "overrides": {...restore() overrides...},
  "calls": [k1, k2, ...]   (0 or null = solve() with the default limit 500),
  "record_saves": path|null   # side file: the solver_state at every save() request
}
Also importable: run_spec(spec) for warm worker processes.
"""
import json
import os
import sys

import numpy as np


def build_problem(p):
    if p["kind"] == "tab":
        from mc import alphabets as AL
        from mc.harness import tabular as T

        nxt, rew, prob = AL.Mgen(p["n"])
        return T.make_problem(nxt, rew, prob, v0=(np.arange(p["n"]) % 5) * 1.5 - 2.0)
    from mc import probtable as PT

    return PT.make(p["kind"], p.get("kw", {}))[0]


def to_plain(st):
    out = {}
    for k, v in st.items():
        if isinstance(v, np.ndarray):
            out[k] = {"dtype": str(v.dtype), "shape": list(v.shape), "hex": np.ascontiguousarray(v).tobytes().hex(), "list": v.tolist()}
        else:
            out[k] = v
    return out


def from_plain(d):
    out = {}
    for k, v in d.items():
        if isinstance(v, dict) and "hex" in v:
            out[k] = np.frombuffer(bytes.fromhex(v["hex"]), dtype=v["dtype"]).reshape(v["shape"])
        else:
            out[k] = v
    return out


def full_state(solver):
    from mc import drive

    st = drive.state_of(solver)
    st["values_dtype"] = str(st["values"].dtype) if st["values"] is not None else None
    return st


def config_view(solver):
    """Field-wise configuration as plain data (paths as strings)."""
    from omegaconf import OmegaConf

    cfg = solver.config
    try:
        d = OmegaConf.to_container(OmegaConf.structured(cfg)) if not isinstance(cfg, dict) else dict(cfg)
    except Exception:
        import dataclasses

        d = dataclasses.asdict(cfg)

    def norm(x):
        if isinstance(x, dict):
            return {k: norm(v) for k, v in x.items()}
        if isinstance(x, (list, tuple)):
            return [norm(v) for v in x]
        if isinstance(x, os.PathLike):
            return str(x)
        return x

    return norm(d)


def run_spec(spec):
    from mc import drive, workers

    # restore() must work in a process that has done nothing but import the library: 64-bit mode is
    # NOT pre-enabled for that route (for hand-built problems the x64-first order is used; the
    # other order is C20's known finding)
    workers.ensure(spec.get("devices", 1), x64=spec.get("route") != "restore" or spec.get("x64_first", False))
    cls = drive.solver_cls(spec["solver"])
    kw = dict(spec.get("kw", {}))
    kw.setdefault("verbose", 0)
    ck = spec.get("ckpt")
    if ck:
        kw.update(checkpoint_dir=ck["dir"], checkpoint_frequency=ck["f"], max_checkpoints=ck["m"], enable_async_checkpointing=ck["async"])
    out = {"error": None, "states": []}
    try:
        if spec.get("route") == "restore":
            s = cls.restore(spec["source"], **({"step": spec["step"]} if spec.get("step") else {}), **spec.get("overrides", {}))
        else:
            pr = build_problem(spec["problem"])
            s = cls(pr, **kw)
            if spec.get("route") == "load":
                s.load_checkpoint(spec["source"], **({"step": spec["step"]} if spec.get("step") else {}))
        workers.quiet()
    except Exception as e:
        out["error"] = "%s: %s" % (type(e).__name__, str(e)[:300])
        out["error_type"] = type(e).__name__
        return out
    saves = []
    if spec.get("record_saves"):
        orig = s.save

        def rec(step, _orig=orig):
            saves.append({"step": int(step), "state": to_plain(full_state(s))})
            return _orig(step)

        s.save = rec
    out["states"].append(to_plain(full_state(s)))
    out["attrs"] = {k: (str(getattr(s, k)) if k == "checkpoint_dir" else getattr(s, k)) for k in ("checkpoint_frequency", "max_checkpoints", "enable_async_checkpointing", "checkpoint_dir") if hasattr(s, k)}
    try:
        out["config"] = config_view(s)
    except Exception as e:
        out["config"] = {"__error__": str(e)[:200]}
    try:
        for k in spec.get("calls", []):
            s.solve(k) if k else s.solve(500)
            if getattr(s, "checkpoint_manager", None) is not None:
                s.checkpoint_manager.wait_until_finished()
            out["states"].append(to_plain(full_state(s)))
    except Exception as e:
        out["error"] = "solve: %s: %s" % (type(e).__name__, str(e)[:300])
        out["error_type"] = type(e).__name__
    if getattr(s, "checkpoint_manager", None) is not None:
        try:
            s.checkpoint_manager.wait_until_finished()
            s.checkpoint_manager.close()
        except Exception:
            pass
    if spec.get("record_saves"):
        with open(spec["record_saves"], "w") as f:
            json.dump(saves, f)
    return out


def main():
    spec = json.loads(sys.argv[1])
    out = run_spec(spec)
    sys.stdout.write("RESULT" + json.dumps(out) + "\n")
    sys.stdout.flush()
    os._exit(0)


def run_fresh(spec, timeout=600):
    """Run a segment in a truly fresh interpreter."""
    import subprocess

    env = dict(os.environ)
    env.update(JAX_PLATFORMS="cpu", MDPAX_VERIF="1", PYTHONHASHSEED="0", PYTHONWARNINGS="ignore")
    root = os.path.dirname(os.path.dirname(os.path.abspath(__file__)))
    p = subprocess.run([sys.executable, "-m", "mc.seg", json.dumps(spec)], capture_output=True, text=True, cwd=root, env=env, timeout=timeout)
    for line in p.stdout.splitlines():
        if line.startswith("RESULT"):
            return json.loads(line[6:])
    return {"error": "segment process produced no result (rc=%s): %s" % (p.returncode, p.stderr[-400:]), "states": [], "error_type": "ProcessFailure"}


def step_dirs(d):
    if not os.path.isdir(d):
        return None
    return sorted(int(x) for x in os.listdir(d) if x.isdigit())


if __name__ == "__main__":
    main()
