"""strace write-history parsing, prefix reconstruction and tree hashing for C11."""
import hashlib
import os
import re
import subprocess
import sys

TRACE = "openat,creat,write,pwrite64,writev,pwritev,ftruncate,truncate,rename,renameat,renameat2,mkdir,mkdirat,unlink,unlinkat,rmdir,link,linkat,symlink,symlinkat"


def record(spec_json, logfile, cwd, env=None, timeout=900):
    """Run one writer epoch under strace; returns the process return code (negative = killed)."""
    cmd = ["strace", "-f", "-qq", "-y", "-xx", "-s", "4194304", "-e", "trace=" + TRACE, "-o", logfile,
           sys.executable, "-m", "mc.crash.writer", spec_json]
    e = dict(os.environ)
    e.update(JAX_PLATFORMS="cpu", MDPAX_VERIF="1", PYTHONHASHSEED="0", PYTHONWARNINGS="ignore")
    if env:
        e.update(env)
    p = subprocess.run(cmd, cwd=cwd, env=e, capture_output=True, text=True, timeout=timeout)
    return p.returncode, p.stderr[-2000:]


def _unhex(s):
    return bytes(int(x, 16) for x in re.findall(r"\\x([0-9a-f]{2})", s)).decode("latin1")


def _unhexb(s):
    return bytes(int(x, 16) for x in re.findall(r"\\x([0-9a-f]{2})", s))


class ParseError(Exception):
    pass


def parse(logfile, ROOT):
    """-> list of ops: (tid, kind, ...) with kinds mkdir rmdir unlink rename open append mark.
    Any successful mutating call under ROOT that is not understood raises ParseError."""
    pend, calls = {}, []
    with open(logfile, errors="replace") as fh:
        for l in fh:
            l = l.rstrip("\n")
            if not l:
                continue
            pid, rest = l.split(None, 1)
            if rest.startswith("+++") or rest.startswith("---"):
                continue
            if rest.endswith("<unfinished ...>"):
                pend[pid] = rest[: -len("<unfinished ...>")]
                continue
            m = re.match(r"<\.\.\. (\w+) resumed>(.*)", rest)
            if m:
                if pid not in pend:
                    continue
                rest = pend.pop(pid) + m.group(2)
            calls.append((pid, rest))
    ops = []
    for pid, c in calls:
        m = re.match(r"(\w+)\((.*)\)\s+= (-?\d+)(.*)$", c, re.S)
        if not m:
            continue
        name, args, ret, tail = m.group(1), m.group(2), int(m.group(3)), m.group(4)
        strs = re.findall(r'"((?:\\x[0-9a-f]{2})*)"', args)
        fdpaths = re.findall(r"<((?:\\x[0-9a-f]{2})*)>", args + tail)
        if name == "mkdir" and strs and _unhex(strs[0]).startswith("/proc/MARK_"):
            ops.append((pid, "mark", _unhex(strs[0])[len("/proc/MARK_"):]))
            continue
        if ret < 0:
            continue

        def absolute(p):
            if p.startswith("/"):
                return p
            return os.path.join(_unhex(fdpaths[0]), p) if fdpaths else p

        if name in ("mkdir", "rmdir", "unlink"):
            p = _unhex(strs[0])
            if p.startswith(ROOT):
                ops.append((pid, name, p))
        elif name == "mkdirat":
            p = absolute(_unhex(strs[0]))
            if p.startswith(ROOT):
                ops.append((pid, "mkdir", p))
        elif name in ("rename", "renameat", "renameat2"):
            a, b = _unhex(strs[0]), _unhex(strs[1])
            if name != "rename" and (not a.startswith("/") or not b.startswith("/")):
                if a.startswith(ROOT) or b.startswith(ROOT) or any(_unhex(f).startswith(ROOT) for f in fdpaths):
                    raise ParseError("relative renameat under the checkpoint tree: " + c[:200])
            if a.startswith(ROOT) or b.startswith(ROOT):
                ops.append((pid, "rename", a, b))
        elif name == "unlinkat":
            p = absolute(_unhex(strs[0]))
            if p.startswith(ROOT):
                ops.append((pid, "rmdir" if "AT_REMOVEDIR" in args else "unlink", p))
        elif name in ("openat", "creat"):
            p = absolute(_unhex(strs[0]))
            if p.startswith(ROOT) and (name == "creat" or "O_CREAT" in args or "O_TRUNC" in args):
                ops.append((pid, "open", p, name == "creat" or "O_TRUNC" in args))
        elif name in ("write", "writev"):
            if not fdpaths:
                continue
            p = _unhex(fdpaths[0])
            if p.startswith(ROOT):
                data = b"".join(_unhexb(s) for s in strs)
                if len(data) != ret:
                    raise ParseError("short/partial write data in log for %s (%d of %d bytes)" % (p, len(data), ret))
                ops.append((pid, "append", p, data))
        elif name in ("pwrite64", "pwritev", "ftruncate", "truncate", "link", "linkat", "symlink", "symlinkat"):
            touched = [_unhex(f) for f in fdpaths] + [_unhex(s) for s in strs if len(s) < 4000]
            if any(t.startswith(ROOT) for t in touched):
                raise ParseError("unhandled mutating call under the checkpoint tree: %s" % c[:200])
    return ops


def apply(ops, ROOT, dst, torn=None):
    """Rebuild the tree at dst from ops (ROOT and dst must have equal length: paths inside file
    contents are substituted byte for byte).  torn = number of bytes to keep of the LAST op if it is
    an append."""
    assert len(ROOT) == len(dst), (ROOT, dst)
    mp = lambda p: dst + p[len(ROOT):]
    R, D = ROOT.encode(), dst.encode()
    last = len(ops) - 1
    for i, o in enumerate(ops):
        k = o[1]
        if k == "mkdir":
            os.mkdir(mp(o[2]))
        elif k == "rmdir":
            os.rmdir(mp(o[2]))
        elif k == "unlink":
            os.unlink(mp(o[2]))
        elif k == "rename":
            os.rename(mp(o[2]), mp(o[3]))
        elif k == "open":
            if o[3] or not os.path.exists(mp(o[2])):
                open(mp(o[2]), "wb").close()
        elif k == "append":
            data = o[3].replace(R, D)
            if torn is not None and i == last:
                data = data[:torn]
            with open(mp(o[2]), "ab") as f:
                f.write(data)


def tree(d, sub=None):
    """relative path -> md5 (files) / None (dirs); file contents have `sub`=(from,to) applied first."""
    out = {}
    for r, ds, fs in os.walk(d):
        for x in ds:
            out[os.path.relpath(os.path.join(r, x), d) + "/"] = None
        for f in fs:
            p = os.path.join(r, f)
            b = open(p, "rb").read()
            if sub:
                b = b.replace(sub[0], sub[1])
            out[os.path.relpath(p, d)] = hashlib.md5(b).hexdigest()[:12]
    return out


def committed_steps(ops, ROOT):
    """Steps whose commit rename is in the prefix and whose deletion has not begun."""
    C = set()
    for o in ops:
        if o[1] == "rename" and o[3].startswith(ROOT + "/") and o[3][len(ROOT) + 1:].isdigit():
            C.add(int(o[3][len(ROOT) + 1:]))
        if o[1] in ("unlink", "rmdir"):
            rel = o[2][len(ROOT) + 1:].split("/")[0]
            if rel.isdigit():
                C.discard(int(rel))
    return C


def structural_invariant(ops, ROOT):
    """All operations under <N>.orbax-checkpoint-tmp*/ precede the rename that commits N, and nothing
    touches <N>/ afterwards except deletion.  -> failure text or None"""
    committed_at = {}
    for i, o in enumerate(ops):
        if o[1] == "rename" and o[3].startswith(ROOT + "/") and o[3][len(ROOT) + 1:].isdigit():
            committed_at[int(o[3][len(ROOT) + 1:])] = i
    for i, o in enumerate(ops):
        if o[1] in ("mark",):
            continue
        p = o[2]
        rel = p[len(ROOT) + 1:] if p.startswith(ROOT + "/") else ""
        head = rel.split("/")[0]
        m = re.match(r"^(\d+)\.orbax-checkpoint-tmp", head)
        if m and int(m.group(1)) in committed_at and i > committed_at[int(m.group(1))] and o[1] in ("append", "open", "mkdir"):
            # a later save of the same step number re-creates a tmp dir legitimately only if the step was deleted/skipped
            return "operation %d (%s %s) under a tmp directory after step %s was committed" % (i, o[1], rel, m.group(1))
        if head.isdigit() and "/" in rel and int(head) in committed_at and i > committed_at[int(head)] and o[1] in ("append", "open", "mkdir", "rename"):
            return "operation %d (%s %s) modifies committed step %s in place" % (i, o[1], rel, head)
    return None


def rebase(ops, old, new):
    """Rewrite the paths (and path bytes inside written data) of ops recorded under `old` to `new`."""
    assert len(old) == len(new)
    o_, n_ = old.encode(), new.encode()
    out = []
    for o in ops:
        o = list(o)
        for i in range(2, len(o)):
            if isinstance(o[i], str) and o[i].startswith(old):
                o[i] = new + o[i][len(old):]
            elif isinstance(o[i], bytes):
                o[i] = o[i].replace(o_, n_)
        out.append(tuple(o))
    return out


def crash_points(ops, ROOT):
    """Structurally different crash points of a first epoch: (label, prefix length)."""
    import re as _re

    pts = {}
    C = set()
    for i, o in enumerate(ops):
        if o[1] == "rename" and o[3].startswith(ROOT + "/") and o[3][len(ROOT) + 1:].isdigit():
            C.add(int(o[3][len(ROOT) + 1:]))
            if len(C) >= 2 and "just-committed" not in pts:
                pts["just-committed"] = i + 1
        rel = o[2][len(ROOT) + 1:] if isinstance(o[2], str) and o[2].startswith(ROOT + "/") else ""
        head = rel.split("/")[0]
        if C and _re.match(r"^\d+\.orbax-checkpoint-tmp", head) and o[1] == "append" and "tmp-present" not in pts:
            pts["tmp-present"] = i + 1
        if head.isdigit() and int(head) in C and o[1] == "unlink":
            n_un = sum(1 for q in ops[: i + 1] if q[1] == "unlink" and q[2].startswith(ROOT + "/" + head + "/"))
            if n_un == 3 and "deletion-half-done" not in pts:
                pts["deletion-half-done"] = i + 1
    return pts
