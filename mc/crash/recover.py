"""Recovery of one reconstructed crash state and its judgement against an independent reference."""
import os
import shutil

import numpy as np

from mc.crash import replaylib as RL
from mc.ref import bellman as B
from mc.ref import problems as RP

_REF = {}


def reference(spec):
    """Independent numpy trajectory for the history's solver on Forest: list of per-iteration states
    and the uninterrupted final iteration."""
    key = (spec["solver"], tuple(sorted(spec["kw"].items())), tuple(sorted(spec["problem"].items())))
    if key in _REF:
        return _REF[key]
    from mc.checks.C08 import RefMachine

    nxt, rew, prob = RP.forest_tables(spec["problem"])
    kw = spec["kw"]
    if spec["solver"] == "pi":
        # policy iteration: state after iteration k = (evaluation of policy k-1, improved policy k)
        S_ = nxt.shape[0]
        pol0 = B.q_values(nxt, rew, prob, kw["gamma"], np.zeros(S_)).argmax(1)
        rp = B.ref_pi(nxt, rew, prob, kw["gamma"], kw["epsilon"], kw.get("convergence_test", "span"), pol0, np.zeros(S_), 60, kw.get("max_eval_iter", 100), False)
        if rp["border"] or not rp["converged"]:
            raise RuntimeError("policy-iteration reference is borderline / does not converge; choose other parameters")
        states = [dict(values=np.zeros(S_), gain=0.0, policy=pol0)]
        for k in range(1, rp["n"] + 1):
            states.append(dict(values=rp["vals"][k - 1], gain=0.0, policy=rp["pols"][k]))
        # after convergence every further iteration re-evaluates the stable policy
        V = rp["vals"][-1]
        for _ in range(4):
            V, _, _, _ = B.ref_eval(nxt, rew, prob, kw["gamma"], B.threshold(kw["epsilon"], kw["gamma"]), kw.get("convergence_test", "span"), rp["pols"][-1], V, kw.get("max_eval_iter", 100))
            states.append(dict(values=V, gain=0.0, policy=rp["pols"][-1]))
        _REF[key] = (states, rp["n"], None)
        return _REF[key]
    case = dict(tables=(nxt, rew, prob), kind=spec["solver"], eps=kw["epsilon"], gamma=kw.get("gamma", 1.0), test=kw.get("convergence_test", "span"), period=kw.get("period"), init="zero")
    layout = None
    if spec["solver"] == "savi":
        S_, b_ = nxt.shape[0], kw.get("max_batch_size", 1024)
        b_ = min(b_, S_)
        nb_ = -(-S_ // b_)
        layout = (1, nb_, b_, nb_ * b_ - S_)
    m = RefMachine(case, layout)
    states = [dict(values=m.V.copy(), gain=m.gain)]
    conv_at = None
    for _ in range(200):
        _, conv = m.solve(1)
        states.append(dict(values=m.V.copy(), gain=m.gain))
        if conv and conv_at is None:
            conv_at = m.n
        if conv_at is not None and m.n >= conv_at + 4:
            break
    if m.border or conv_at is None:
        raise RuntimeError("reference for %s is borderline / does not converge; choose other parameters" % (key,))
    _REF[key] = (states, conv_at, m)
    return _REF[key]


def history_slots(states, it, p):
    """value history buffer content expected at iteration `it` (period p): slot (idx-j)%(p+1) = V_(it-j)."""
    idx = it % (p + 1)
    H = np.zeros((p + 1, len(states[0]["values"])))
    for j in range(min(p, it) + 1):
        H[(idx - j) % (p + 1)] = states[it - j]["values"]
    return H, idx


def recover(job):
    """job: ops (prefix, marks removed), ROOT, dst, spec, torn -> dict(outcome, fail)"""
    from mc import drive, seg, workers

    workers.ensure()
    spec, ROOT, dst = job["spec"], job["ROOT"], job["dst"]
    ops = job["ops"]
    shutil.rmtree(dst, ignore_errors=True)
    for extra in (dst + "_x",):
        shutil.rmtree(extra, ignore_errors=True)
    try:
        RL.apply(ops, ROOT, dst, torn=job.get("torn"))
    except Exception as e:
        return {"outcome": "rebuild-error", "fail": "reconstruction failed: %s: %s" % (type(e).__name__, e), "machinery": True}
    C = RL.committed_steps(ops, ROOT)
    return judge(dst, spec, C)


def copy_sub(src, dst):
    """Copy a checkpoint tree to a same-length sibling path, substituting the path inside files."""
    assert len(src) == len(dst)
    shutil.rmtree(dst, ignore_errors=True)
    a, b = src.encode(), dst.encode()
    for r, ds, fs in os.walk(src):
        rel = os.path.relpath(r, src)
        os.makedirs(os.path.join(dst, rel) if rel != "." else dst, exist_ok=True)
        for f in fs:
            try:
                data = open(os.path.join(r, f), "rb").read()
            except FileNotFoundError:
                continue  # deleted between listing and reading (a concurrent retention deletion)
            with open(os.path.join(dst, rel, f) if rel != "." else os.path.join(dst, f), "wb") as fh:
                fh.write(data.replace(a, b))


def judge(dst, spec, C, at_least=False):
    """Recover from the directory dst.  C = steps completed before the kill.  With at_least=True the
    restored iteration may be newer than max(C) (used when C comes from a log that can miss an
    in-flight commit) but must still be correctly labelled."""
    from mc import drive, seg, workers

    workers.ensure()
    cls = drive.solver_cls(spec["solver"])
    states, conv_at, _ = reference(spec)
    out = {"C": sorted(C), "fail": None}
    if not os.path.exists(dst):
        out["outcome"] = "no-directory"
        if C:
            out["fail"] = "committed steps %s but no directory" % sorted(C)
        return out
    s = None
    try:
        s = cls.restore(dst)
        workers.quiet()
    except Exception as e:
        out["outcome"] = "restore-raised:" + type(e).__name__
        if C:
            out["fail"] = "steps %s had been committed before the kill but restore() raised %s: %s" % (sorted(C), type(e).__name__, str(e)[:120])
        shutil.rmtree(dst, ignore_errors=True)
        return out
    try:
        it = int(s.iteration)
        st = seg.full_state(s)
        if not C and not at_least:
            out["outcome"] = "restored-without-commit"
            out["fail"] = "no checkpoint had been completed, yet restore() returned a solver at iteration %d" % it
            return out
        if at_least and (not C or it > max(C)) and it in (seg.step_dirs(dst) or []):
            pass
        elif not C or it != max(C):
            out["outcome"] = "wrong-iteration"
            out["fail"] = "restored iteration %d, newest completed checkpoint is %d (completed: %s)" % (it, max(C), sorted(C))
            return out
        ref = states[it] if it < len(states) else None
        if ref is None:
            out["outcome"] = "beyond-reference"
            out["fail"] = "restored iteration %d beyond the reference trajectory" % it
            return out
        if st["values"].shape != ref["values"].shape or np.abs(st["values"] - ref["values"]).max() > 1e-10 * (1 + np.abs(ref["values"]).max()):
            out["outcome"] = "wrong-values"
            out["fail"] = "checkpoint labelled iteration %d does not hold the values of iteration %d (max dev %.3g)" % (it, it, np.abs(st["values"] - ref["values"]).max())
            return out
        if spec["solver"] == "rvi" and abs(st["gain"] - ref["gain"]) > 1e-10 * (1 + abs(ref["gain"])):
            out["outcome"] = "wrong-gain"
            out["fail"] = "restored gain %.12g, iteration %d had %.12g" % (st["gain"], it, ref["gain"])
            return out
        if spec["solver"] == "pi":
            pol = None if st["policy"] is None else np.asarray(st["policy"]).reshape(len(ref["values"]), -1)[:, 0].astype(int)
            if pol is None or not np.array_equal(pol, ref["policy"]):
                out["outcome"] = "wrong-policy"
                out["fail"] = "checkpoint labelled iteration %d does not hold the policy of iteration %d (restored %s, the solver held %s)" % (it, it, None if pol is None else pol.tolist(), ref["policy"].tolist())
                return out
        if spec["solver"] == "pvi":
            H, idx = history_slots(states, it, spec["kw"]["period"])
            if st["history_index"] != idx or st["value_history"] is None or np.abs(st["value_history"] - H).max() > 1e-10 * (1 + np.abs(H).max()):
                out["outcome"] = "wrong-history"
                out["fail"] = "restored value history / index (%s) is not that of iteration %d" % (st["history_index"], it)
                return out
        # continue in the crash-state directory, with its debris, to the uninterrupted result
        res = s.solve(500)
        s.checkpoint_manager.wait_until_finished()
        fin = seg.full_state(s)
        want_n = it + 1 if it >= conv_at else conv_at  # an already converged state adds one sweep
        reff = states[want_n] if want_n < len(states) else None
        if fin["iteration"] != want_n or reff is None or np.abs(fin["values"] - reff["values"]).max() > 1e-10 * (1 + np.abs(reff["values"]).max()):
            out["outcome"] = "wrong-continuation"
            out["fail"] = "continuing from the recovered state ended at iteration %d (uninterrupted run: %d) / values off by %.3g" % (fin["iteration"], want_n, np.abs(fin["values"] - reff["values"]).max() if reff is not None and fin["values"].shape == reff["values"].shape else -1)
            return out
        steps = seg.step_dirs(dst) or []
        if fin["iteration"] not in steps:
            out["outcome"] = "final-not-saved"
            out["fail"] = "after continuing, the final iteration %d is not checkpointed (steps %s)" % (fin["iteration"], steps)
            return out
        out["outcome"] = "recovered@%d" % it
        return out
    except Exception as e:
        out["outcome"] = "continue-raised:" + type(e).__name__
        out["fail"] = "recovered solver raised while continuing: %s: %s" % (type(e).__name__, str(e)[:160])
        return out
    finally:
        try:
            if s is not None and s.checkpoint_manager is not None:
                s.checkpoint_manager.wait_until_finished()
                s.checkpoint_manager.close()
        except Exception:
            pass
        shutil.rmtree(dst, ignore_errors=True)
        shutil.rmtree(dst + "_x", ignore_errors=True)
