"""Layer (b): writer x solver schedules.  Orbax's commit (AtomicRenameTemporaryPath.finalize of a
step directory) is parked at a gate; the harness releases it at a chosen iteration boundary.  All
placements of every commit relative to the iteration boundaries between consecutive saves are
enumerated by the caller; this module executes one schedule and snapshots the directory at every
(solver progress, writer progress) pair."""
import asyncio
import os
import shutil
import threading
import time

import numpy as np


class Gate:
    def __init__(self):
        self.release = threading.Event()
        self.reached = threading.Event()
        self.enabled = False


G = Gate()
_installed = False


def install():
    global _installed
    if _installed:
        return
    from orbax.checkpoint._src.path import atomicity

    orig = atomicity.AtomicRenameTemporaryPath.finalize

    async def gated(self, *a, **k):
        if G.enabled and self._final_path.name.isdigit():
            G.reached.set()
            await asyncio.to_thread(G.release.wait)
            G.release.clear()
        return await orig(self, *a, **k)

    atomicity.AtomicRenameTemporaryPath.finalize = gated
    _installed = True


def run_schedule(job):
    """job: solver, kw, problem, f, m, K, schedule {save_step: delay}, dir, snapfmt (%-format giving same-length paths)
    -> dict(trace, snapshots=[(label, path, committed_max)], saved states, error)"""
    from loguru import logger

    from mc import drive, seg, workers
    from mc.crash import recover as RC

    workers.ensure()
    install()
    from mdpax.problems import Forest

    d = job["dir"]
    shutil.rmtree(d, ignore_errors=True)
    cls = drive.solver_cls(job["solver"])
    s = cls(Forest(**job["problem"]), verbose=2, checkpoint_dir=d, checkpoint_frequency=job["f"], max_checkpoints=job["m"], enable_async_checkpointing=True, **job["kw"])
    logger.remove()
    logger.enable("mdpax")
    G.enabled = True
    G.release.clear()
    G.reached.clear()
    schedule = {int(k): v for k, v in job["schedule"].items()}
    pending, trace, saved, snaps, fails = [], [], {}, [], []
    nsnap = [0]

    def wait_commit(step):
        t0 = time.time()
        while not os.path.isdir(os.path.join(d, str(step))) and time.time() - t0 < 30:
            time.sleep(0.002)
        if not os.path.isdir(os.path.join(d, str(step))):
            fails.append("commit of step %d did not happen within 30 s of the gate release (deadlock?)" % step)

    def release_one(pnd):
        if not G.reached.wait(30):
            fails.append("writer never reached the commit gate for step %d" % pnd[0])
            return
        G.reached.clear()
        G.release.set()
        wait_commit(pnd[0])
        trace.append(("commit", pnd[0], int(s.iteration)))

    def snapshot(label):
        if not job.get("snapfmt"):
            return
        dst = job["snapfmt"] % nsnap[0]
        nsnap[0] += 1
        RC.copy_sub(d, dst)
        steps = sorted(int(x) for x in os.listdir(d) if x.isdigit())
        snaps.append({"label": label, "path": dst, "steps": steps, "listing": sorted(os.listdir(d))})

    orig_save = s.save

    def save(step):
        while pending:  # the next save() blocks until the previous epoch has finished anyway
            release_one(pending.pop(0))
        if os.path.isdir(os.path.join(d, str(step))):
            return orig_save(step)
        st = seg.full_state(s)
        saved[int(step)] = st
        orig_save(step)
        # poison every mutable buffer reachable from the solver state, then put it back
        vh = getattr(s, "value_history", None)
        if isinstance(vh, np.ndarray):
            keep = vh.copy()
            vh[:] = np.nan
            time.sleep(0.01)
            vh[:] = keep
        pending.append([int(step), schedule.get(int(step), 0)])
        trace.append(("save", int(step), int(s.iteration)))
        snapshot("after save(%d) returned, commit parked" % step)

    s.save = save

    def sink(msg):
        if msg.record["message"].startswith("Iteration "):
            for pnd in list(pending):
                if pnd[1] <= 0:
                    pending.remove(pnd)
                    release_one(pnd)
                    snapshot("iteration %d, commit of %d released" % (int(s.iteration), pnd[0]))
                else:
                    pnd[1] -= 1
                    snapshot("iteration %d, commit of %d still parked" % (int(s.iteration), pnd[0]))
            trace.append(("iter", int(s.iteration), sorted(x for x in os.listdir(d) if x != "config.yaml")))

    sid = logger.add(sink, level="INFO")
    err = None
    try:
        s.solve(job["K"])
        while pending:
            release_one(pending.pop(0))
        s.checkpoint_manager.wait_until_finished()
        snapshot("end")
    except Exception as e:
        err = "%s: %s" % (type(e).__name__, str(e)[:200])
        G.release.set()
    finally:
        G.enabled = False
        G.release.set()
        logger.remove(sid)
        logger.disable("mdpax")
    # committed steps must hold the save-time state (no leak of the poison, no later iteration)
    if err is None:
        for step in sorted(int(x) for x in os.listdir(d) if x.isdigit()):
            chk = d + "_x"
            shutil.rmtree(chk, ignore_errors=True)
            r = cls.restore(d, step=step, new_checkpoint_dir=chk, checkpoint_frequency=0)
            workers.quiet()
            got = seg.full_state(r)
            want = saved.get(step)
            if want is None:
                fails.append("step %d on disk was never requested" % step)
                continue
            for k in ("iteration", "values", "gain", "value_history", "history_index"):
                a, b = want.get(k), got.get(k)
                if a is None and b is None:
                    continue
                if isinstance(a, np.ndarray):
                    if b is None or a.shape != np.asarray(b).shape or not np.array_equal(a, np.asarray(b)):
                        fails.append("committed step %d: field %s differs from the state at the time save() was called" % (step, k))
                elif a != b:
                    fails.append("committed step %d: field %s = %r, at save time %r" % (step, k, b, a))
            shutil.rmtree(chk, ignore_errors=True)
    try:
        s.checkpoint_manager.close()
    except Exception:
        pass
    shutil.rmtree(d, ignore_errors=True)
    return {"error": err, "fails": fails, "trace": trace, "snaps": snaps}
