"""Traced writer epochs for C11:  python -m mc.crash.writer '<json>'
spec = {"epoch": "first"|"resume", "solver":..., "kw":..., "dir":..., "f":.., "m":.., "async":.., "k": int,
        "kill": null | {"where": "before_outer"|"before_inner"|"mid_delete"|"after_save_call", "step": int, "count": int}}
Marks (failing mkdir under /proc) make phase boundaries visible in the strace log."""
import json
import os
import signal
import sys


def mark(x):
    try:
        os.mkdir("/proc/MARK_" + x)
    except OSError:
        pass


def install_kill(kill):
    from orbax.checkpoint._src.path import atomicity

    orig = atomicity.AtomicRenameTemporaryPath.finalize
    step, where = str(kill["step"]), kill["where"]

    async def gated(self, *a, **k):
        name = self._final_path.name
        if where == "before_outer" and name == step:
            os.kill(os.getpid(), signal.SIGKILL)
        if where == "before_inner" and name == "default" and (step + ".") in str(self._final_path):
            os.kill(os.getpid(), signal.SIGKILL)
        return await orig(self, *a, **k)

    atomicity.AtomicRenameTemporaryPath.finalize = gated
    if where == "mid_delete":
        cnt = [0]
        _unlink, _rmdir = os.unlink, os.rmdir

        def unlink(p, *a, **k):
            if ("/%s/" % step) in str(p):
                cnt[0] += 1
                if cnt[0] == kill.get("count", 4):
                    os.kill(os.getpid(), signal.SIGKILL)
            return _unlink(p, *a, **k)

        os.unlink = unlink


def main():
    spec = json.loads(sys.argv[1])
    from mc import drive, workers

    # the first epoch uses the x64-first order; a resume epoch is a bare process calling restore()
    workers.ensure(1, x64=spec["epoch"] == "first")
    if spec.get("kill"):
        install_kill(spec["kill"])
    cls = drive.solver_cls(spec["solver"])
    if spec["epoch"] == "first":
        from mdpax.problems import Forest

        s = cls(Forest(**spec["problem"]), verbose=0, checkpoint_dir=spec["dir"], checkpoint_frequency=spec["f"], max_checkpoints=spec["m"],
                enable_async_checkpointing=spec["async"], **spec["kw"])
    else:
        mark("restore")
        s = cls.restore(spec["dir"])
        mark("restored_%d" % int(s.iteration))
    if spec.get("kill") and spec["kill"]["where"] == "after_save_call":
        orig_save = s.save

        def save(step):
            r = orig_save(step)
            if int(step) == spec["kill"]["step"]:
                os.kill(os.getpid(), signal.SIGKILL)
            return r

        s.save = save
    mark("solve")
    s.solve(spec["k"])
    mark("solved")
    s.checkpoint_manager.wait_until_finished()
    mark("end")
    os._exit(0)


if __name__ == "__main__":
    main()
