"""Shipped problems: parameter boxes, complete (state, action, event) tables from the real problem
objects, and the four oracles used by C13-C16 (and the table part of C17)."""
import dataclasses
import itertools
import math

import numpy as np

from mc.ref import problems as RP


def make(kind, kw):
    from mdpax import problems as MP

    cls = {"forest": MP.Forest, "demoor": MP.DeMoorSingleProductPerishable, "mirjalili": MP.MirjaliliPlateletPerishable, "hendrix": MP.HendrixTwoProductPerishable}[kind]
    pr = cls(**kw)
    cfg = dataclasses.asdict(pr.config)
    return pr, cfg


def tables(pr, sel=None):
    import jax
    import jax.numpy as jnp

    S, A, E = pr.state_space, pr.action_space, pr.random_event_space
    if sel is not None:
        S = S[jnp.array(sel)]
    v3 = lambda f: jax.jit(jax.vmap(jax.vmap(jax.vmap(f, in_axes=(None, None, 0)), in_axes=(None, 0, None)), in_axes=(0, None, None)))
    ns, rw = v3(pr.transition)(S, A, E)
    pb = v3(pr.random_event_probability)(S, A, E)
    nS, nA, nE = len(S), len(A), len(E)
    return np.array(S), np.array(A), np.array(E), np.array(ns), np.array(rw).reshape(nS, nA, nE), np.array(pb).reshape(nS, nA, nE)


def sae(kind, kw):
    cfg = dict(kw)
    if kind == "forest":
        return RP.forest_sizes(cfg)
    if kind == "demoor":
        return RP.demoor_sizes(cfg)
    if kind == "mirjalili":
        return RP.mirj_sizes(cfg)
    return RP.hend_sizes(cfg)


def pkey(kind, kw):
    return kind + "(" + ",".join("%s=%s" % (k, kw[k]) for k in sorted(kw)) + ")"


# ------------------------------------------------------------------ parameter boxes (DESIGN 4.4)
def box(tier, seed=0, cap=None):
    quick = tier == "quick"
    cap = cap or (1e5 if quick else 4e6)
    out = []
    # Forest
    for S, p, (r1, r2) in itertools.product(range(1, 7), (0.0, 0.1, 0.5, 1.0), ((4.0, 2.0), (2.0, 8.0), (-1.0, 0.5))):
        out.append(("forest", dict(S=S, p=p, r1=r1, r2=r2)))
    # De Moor
    costs = [dict(), dict(variable_order_cost=0.0, shortage_cost=0.0, wastage_cost=0.0, holding_cost=0.0), dict(variable_order_cost=1.0, shortage_cost=10.0, wastage_cost=100.0, holding_cost=1000.0)]
    dm = []
    for m, L, q in itertools.product(range(1, 6), range(1, 5), (1, 2, 3)):
        if (q + 1) ** (m + L - 1) > 7000:
            continue
        for D, pol in itertools.product(sorted({1, q, 2 * q + 1}), ("fifo", "lifo")):
            dm.append(dict(max_useful_life=m, lead_time=L, max_order_quantity=q, max_demand=D, issue_policy=pol))
    dists = list(itertools.product((0.7, 4.0), (0.1, 0.5, 2.0)))
    for i, base in enumerate(dm):
        # distribution and cost settings rotate over the structural tuples in quick, are crossed in thorough
        combos = list(itertools.product(dists, costs)) if not quick else [(dists[(i + seed) % len(dists)], costs[(i + seed) % 3]), (dists[(i + seed + 3) % len(dists)], costs[(i + seed + 1) % 3])]
        for (mean, cov), c in combos:
            out.append(("demoor", dict(base, demand_gamma_mean=mean, demand_gamma_cov=cov, **c)))
    # Hendrix
    hc = [dict(), dict(sales_price_a=3.0, sales_price_b=1.0, variable_order_cost_a=0.25, variable_order_cost_b=2.0)]
    hd = []
    for m, (qa, qb) in itertools.product(range(1, 5), ((1, 1), (2, 1), (1, 2), (2, 2), (3, 2))):
        if (qa + 1) ** m * (qb + 1) ** m > 1300:
            continue
        hd.append(dict(max_useful_life=m, max_order_quantity_a=qa, max_order_quantity_b=qb))
    means = list(itertools.product((0.3, 1.0, 5.0), repeat=2))
    for i, base in enumerate(hd):
        combos = list(itertools.product(means, (0.0, 0.5, 1.0), hc)) if not quick else [(means[(i + seed + j * 4) % 9], (0.0, 0.5, 1.0)[(i + j) % 3], hc[(i + j) % 2]) for j in range(3)]
        for (ma, mb), sub, c in combos:
            out.append(("hendrix", dict(base, demand_poisson_mean_a=ma, demand_poisson_mean_b=mb, substitution_probability=sub, **c)))
    # Mirjalili
    mc_ = [dict(), dict(variable_order_cost=1.0, fixed_order_cost=10.0, shortage_cost=100.0, wastage_cost=1000.0, holding_cost=10000.0)]
    dflt_n = (3.5, 11.0, 7.2, 11.1, 5.9, 5.5, 2.2)
    dflt_d = (5.7, 6.9, 6.5, 6.2, 5.8, 3.3, 3.4)
    perm = (2, 0, 6, 1, 5, 3, 4)
    wk = [dict(), dict(weekday_demand_negbin_n=tuple(dflt_n[i] for i in perm), weekday_demand_negbin_delta=tuple(dflt_d[(i + 2) % 7] for i in perm))]
    mj = []
    for m, q, D in itertools.product(range(1, 6), (1, 2, 3), (1, 3)):
        mj.append(dict(max_useful_life=m, max_order_quantity=q, max_demand=D))
    for i, base in enumerate(mj):
        m = base["max_useful_life"]
        c0s = [tuple([0.0] * (m - 1)), tuple([1.0, 0.5, 0.25, 0.125][: m - 1])]
        c1s = [tuple([0.0] * (m - 1)), tuple([0.4] * (m - 1)), tuple([-0.4] * (m - 1)), tuple([0.4, -0.2, 0.3, -0.1][: m - 1])]
        combos = list(itertools.product(c0s, c1s, wk, mc_)) if not quick else [(c0s[(i + j) % 2], c1s[(i + 3 * j + seed) % 4], wk[(i + j) % 2], mc_[(i + j + 1) % 2]) for j in range(2)]
        for c0, c1, w, c in combos:
            if m == 1 and (any(c0) or any(c1)):
                continue
            out.append(("mirjalili", dict(base, useful_life_at_arrival_distribution_c_0=c0, useful_life_at_arrival_distribution_c_1=c1, **w, **c)))
    seen, res = set(), []
    for kind, kw in out:
        k = pkey(kind, kw)
        if k in seen:
            continue
        seen.add(k)
        S, A, E = sae(kind, _full(kind, kw))
        if S * A * E <= cap:
            res.append((kind, kw, S * A * E))
    return res


def _full(kind, kw):
    """kwargs completed with the config defaults (for size formulas)."""
    d = {
        "forest": dict(S=3, r1=4.0, r2=2.0, p=0.1),
        "demoor": dict(max_demand=100, max_useful_life=2, lead_time=1, max_order_quantity=10),
        "mirjalili": dict(max_demand=20, max_useful_life=3, max_order_quantity=20),
        "hendrix": dict(max_useful_life=2, max_order_quantity_a=10, max_order_quantity_b=10),
    }[kind]
    d = dict(d)
    d.update(kw)
    return d


# ------------------------------------------------------------------ oracles
def oracle_dist(kind, cfg, T):
    S, A, E, ns, rw, pb = T
    fails = []
    bad = ~np.isfinite(pb)
    if bad.any():
        i, j, k = np.argwhere(bad)[0]
        fails.append("non-finite probability at state %s action %s event %s" % (S[i].tolist(), A[j].tolist(), E[k].tolist()))
    neg = pb < -1e-12
    if neg.any():
        i, j, k = np.argwhere(neg)[0]
        fails.append("negative probability %.3g at state %s action %s event %s" % (pb[i, j, k], S[i].tolist(), A[j].tolist(), E[k].tolist()))
    sums = pb.sum(-1)
    dev = np.abs(sums - 1.0)
    nbad = int((dev > 1e-4).sum())
    cls = None
    if nbad and not fails:
        cls = "rowsum-deficit" if sums.max() <= 1 + 1e-4 else "rowsum-excess"
    if nbad:
        i, j = np.unravel_index(dev.argmax(), dev.shape)
        fails.append("row sums deviate from 1 by more than 1e-4 for %d of %d state-action pairs; worst %.6f at state %s action %s" % (nbad, dev.size, sums[i, j], S[i].tolist(), A[j].tolist()))
    return {"fails": fails, "pairs": int(dev.size), "entries": int(pb.size), "min_sum": float(sums.min()), "max_sum": float(sums.max()), "bad_pairs": nbad, "class": cls}


def oracle_closure(kind, cfg, T, pr):
    import jax
    import jax.numpy as jnp

    S, A, E, ns, rw, pb = T
    fails = []
    exp = RP.SIZES[kind](cfg)
    if (len(S), len(A), len(E)) != tuple(exp):
        fails.append("space sizes (S,A,E) = %s, documented %s" % ((len(S), len(A), len(E)), tuple(exp)))
    for name, sp in (("state", S), ("action", A), ("event", E)):
        if len({tuple(r) for r in sp.tolist()}) != len(sp):
            fails.append("duplicate rows in the %s space" % name)
    idx = np.array(jax.vmap(pr.state_to_index)(pr.state_space))
    if not np.array_equal(idx, np.arange(len(S))):
        i = int(np.argmax(idx != np.arange(len(S))))
        fails.append("index function maps listed state %s (row %d) to row %d" % (S[i].tolist(), i, int(idx[i])))
    rows = {tuple(int(x) for x in s): i for i, s in enumerate(S)}
    nsidx = np.array(jax.jit(jax.vmap(jax.vmap(jax.vmap(pr.state_to_index))))(jnp.array(ns)))
    pos = np.argwhere(pb > 0)
    checked = 0
    for i, j, k in pos:
        t = tuple(int(x) for x in ns[i, j, k])
        checked += 1
        r = rows.get(t)
        if r is None:
            fails.append("positive-probability successor %s of state %s action %s event %s is not a listed state (clipped onto row %d = %s)" % (list(t), S[i].tolist(), A[j].tolist(), E[k].tolist(), int(nsidx[i, j, k]), S[int(nsidx[i, j, k])].tolist()))
            break
        if r != nsidx[i, j, k]:
            fails.append("successor %s is row %d but its index is %d" % (list(t), r, int(nsidx[i, j, k])))
            break
    return {"fails": fails, "positive_triples": checked, "states": len(S)}


def oracle_dyn(kind, cfg, T):
    S, A, E, ns, rw, pb = T
    ref = {"forest": lambda c, s, a, e: RP.forest_ref(c, s, a, e) + (True,), "demoor": RP.demoor_ref, "mirjalili": RP.mirj_ref, "hendrix": RP.hend_ref}[kind]
    fails, n, mism = [], 0, 0
    Sl, Al, El = S.tolist(), A.tolist(), E.tolist()
    for i, s in enumerate(Sl):
        for j, a in enumerate(Al):
            for k, e in enumerate(El):
                if kind == "hendrix" and not RP.hend_defined(cfg, s, a, e):
                    continue
                n += 1
                rs, rr, cons = ref(cfg, s, a, e)
                if not cons:
                    mism += 1
                    if len(fails) < 3:
                        fails.append("reference conservation failed at %s %s %s" % (s, a, e))
                if ns[i, j, k].tolist() != rs or abs(rw[i, j, k] - rr) > 1e-9 * (1 + abs(rr)):
                    mism += 1
                    if len(fails) < 3:
                        fails.append("state %s action %s event %s: implementation -> %s reward %.6g, documented dynamics -> %s reward %.6g" % (s, a, e, ns[i, j, k].tolist(), rw[i, j, k], rs, rr))
    if mism > len(fails):
        fails.append("... %d mismatching triples in total" % mism)
    return {"fails": fails, "triples": n, "mismatches": mism}


def oracle_probs(kind, cfg, T, pr):
    import jax

    S, A, E, ns, rw, pb = T
    fails, worst, n = [], 0.0, 0
    import jax.numpy as jnp

    iv = np.array(jax.vmap(pr.initial_value)(jnp.array(S))).reshape(-1)
    if kind == "forest":
        tolp = 1e-12
        for i, s in enumerate(S.tolist()):
            for j, a in enumerate(A.tolist()):
                for k, e in enumerate(E.tolist()):
                    d = abs(pb[i, j, k] - RP.forest_prob(cfg, s, a, e))
                    worst = max(worst, d)
                    n += 1
                    if d > tolp and len(fails) < 3:
                        fails.append("P(event %s | state %s, action %s) = %.6g, documented %.6g" % (e, s, a, pb[i, j, k], RP.forest_prob(cfg, s, a, e)))
        if np.abs(iv).max() > 0:
            fails.append("initial values are not zero")
    elif kind == "demoor":
        dp = RP.demoor_probs(cfg)
        d = np.abs(pb - dp[None, None, E[:, 0]])
        worst, n = float(d.max()), int(d.size)
        if worst > 1e-9:
            i, j, k = np.unravel_index(d.argmax(), d.shape)
            fails.append("P(demand %d) = %.9g, discretised censored gamma gives %.9g (state %s action %s)" % (E[k, 0], pb[i, j, k], dp[E[k, 0]], S[i].tolist(), A[j].tolist()))
        if np.abs(iv).max() > 0:
            fails.append("initial values are not zero")
    elif kind == "mirjalili":
        # probability depends on (weekday, order, event) only
        cache = {}
        Sl, Al, El = S.tolist(), A.tolist(), E.tolist()
        for i, s in enumerate(Sl):
            for j, a in enumerate(Al):
                key = (s[0], a[0])
                if key not in cache:
                    cache[key] = np.array([RP.mirj_prob(cfg, s, a, e) for e in El])
                d = np.abs(pb[i, j] - cache[key])
                n += len(El)
                if d.max() > worst:
                    worst = float(d.max())
                if d.max() > 5e-6 and len(fails) < 3:
                    k = int(d.argmax())
                    fails.append("P(event %s | weekday %d, order %d) = %.9g, documented distribution %.9g" % (El[k], s[0], a[0], pb[i, j, k], cache[key][k]))
        if np.abs(iv).max() > 0:
            fails.append("initial values are not zero")
    else:  # hendrix: interval oracle
        m = cfg["max_useful_life"]
        Tt = int(pr.max_demand)
        cache = {}
        pa_, pb_ = cfg["sales_price_a"], cfg["sales_price_b"]
        El = [tuple(int(x) for x in e) for e in E.tolist()]
        tailmax = 0.0
        for i, s in enumerate(S.tolist()):
            xa, xb = int(sum(s[:m])), int(sum(s[m:]))
            if (xa, xb) not in cache:
                cache[(xa, xb)] = RP.hend_exact_tail(cfg, xa, xb, Tt)
            ex, tail = cache[(xa, xb)]
            for j in range(len(A)):
                for k, e in enumerate(El):
                    x, t = ex.get(e, 0.0), tail.get(e, 0.0)
                    n += 1
                    p = pb[i, j, k]
                    worst = max(worst, p - x, x - t - p)
                    tailmax = max(tailmax, t)
                    if not (x - t - 1e-9 <= p <= x + 1e-9) and len(fails) < 3:
                        fails.append("P(issued %s | stock a=%d b=%d) = %.9g outside [exact - truncated tail, exact] = [%.9g, %.9g]" % (list(e), xa, xb, p, x - t, x))
            ivx = sum(p * (pa_ * ia + pb_ * ib) for (ia, ib), p in ex.items())
            ivt = sum(p * (pa_ * ia + pb_ * ib) for (ia, ib), p in tail.items())
            if not (ivx - ivt - 1e-9 <= iv[i] <= ivx + 1e-9) and len(fails) < 4:
                fails.append("initial value of state %s = %.9g outside [%.9g, %.9g] (expected one-step revenue)" % (s, iv[i], ivx - ivt, ivx))
        return {"fails": fails, "entries": n, "worst": float(worst), "max_tail": float(tailmax)}
    return {"fails": fails, "entries": n, "worst": float(worst)}


def prob_job(job):
    """job: kind, kw, oracles [dist|closure|dyn|probs], optional sel (state slice)"""
    from mc import workers

    workers.ensure()
    kind, kw = job["kind"], job["kw"]
    try:
        pr, cfg = make(kind, kw)
        T = tables(pr, job.get("sel"))
    except Exception as e:
        return {"error": "%s: %s" % (type(e).__name__, str(e)[:200])}
    out = {"error": None, "sizes": [len(T[0]), len(T[1]), len(T[2])]}
    for o in job["oracles"]:
        if o == "dist":
            out[o] = oracle_dist(kind, cfg, T)
        elif o == "closure":
            out[o] = oracle_closure(kind, cfg, T, pr)
        elif o == "dyn":
            out[o] = oracle_dyn(kind, cfg, T)
        elif o == "probs":
            out[o] = oracle_probs(kind, cfg, T, pr)
    return out


def dist_key(kind, kw, o):
    """Key of a C13 violation: for a pure row-sum deficit only the parameters the distribution
    depends on plus the measured minimum row sum (so a changed behaviour is a different key)."""
    if kind == "hendrix" and o.get("class") == "rowsum-deficit":
        f = _full_h(kw)
        return "hendrix rowsum-deficit m=%d qa=%d qb=%d mean_a=%g mean_b=%g sub=%g min_row_sum=%.4f" % (
            f["max_useful_life"], f["max_order_quantity_a"], f["max_order_quantity_b"], f["demand_poisson_mean_a"], f["demand_poisson_mean_b"], f["substitution_probability"], o["min_sum"])
    return pkey(kind, kw) + (" [%s]" % o["class"] if o.get("class") else "")


def _full_h(kw):
    d = dict(max_useful_life=2, max_order_quantity_a=10, max_order_quantity_b=10, demand_poisson_mean_a=5.0, demand_poisson_mean_b=5.0, substitution_probability=0.5)
    d.update(kw)
    return d
