"""Generates /verif/MANIFEST.json from the table below (python -m mc.manifest_gen)."""
import json
import os

ROOT = os.path.dirname(os.path.dirname(os.path.abspath(__file__)))

# id -> (engine, technique, level text, level note, design ref)
CHECKS = {
    "C18": ("boxmc", "bounded-exhaustive enumeration of all (n_states, max_batch_size, devices) layouts on the real BatchProcessor",
            "Every layout in the box is constructed on the real BatchProcessor and its arithmetic invariants checked; for the smaller box real prepare_batches/unbatch_results round trips on distinct sentinel rows with three trailing shapes. Complete inside the box, nothing sampled.",
            "Box bounds (n,b<=80 quick / 300 thorough, d<=8; arrays n<=16 / 40 plus boundary sizes); device counts beyond 3 are the constructor argument, not emulated devices.", "6 C18"),
    "C19": ("boxmc", "bounded-exhaustive enumeration of all integer boxes (dim<=3 quick, <=4 thorough, coordinates -2..3) on the real create_range_space",
            "Every (mins<=maxs) box in the coordinate range is built with the real constructor; every listed vector and every vector of the box grown by one is pushed through the real index function (vmap, jit for dim<=2, eager) and compared with itertools.product / nearest-row arithmetic.",
            "Coordinates limited to -2..3 and dimension <=4; numpy's ravel_multi_index as reference.", "6 C19"),
}

CHECKS.update({
    "C01": ("boxmc", "bounded-exhaustive enumeration of tiny-MDP alphabets x solver/test rows x gamma x eps (+ secondary axes) on real solvers, exact v*/v^pi oracle",
            "Every member of the enumerated sub-products (canonical 1-2 state MDP alphabets, near-tie family, sign-symmetric anchor family, block packs; 5 solver/test rows; gamma, eps; encodings, scales, initial values/policies, batch sizes, shuffle seeds) is a real solve() on a fresh solver; the returned policy is evaluated exactly by linear solve and compared with exact v* against the stated a-priori bounds. Largest observed error/bound ratio per bound is reported so vacuity is visible.",
            "Small-scope: MDPs with <=3 states (plus block-packed unions up to ~1200 states); gamma/eps grids; single device (C03 covers devices). PI bounds asserted only when the returned (V,pi) pass the evaluation stopping test.", "6 C01"),
    "C02": ("boxmc", "bounded-exhaustive enumeration of Bellman-backup rows (row alphabets R(A,E), block-packed M2d/M2s x W^2) through the real sweep kernel and solve(1)",
            "Every row of the row alphabets (all probability patterns x rewards x successor values, 3.3e5 rows for R(2,2); also with zero-probability events whose reported successor lies outside the state space) and every MDP of M2d/M2s with every value vector in W^2 goes through the real sweep (private kernel with injected vector, and public solve(1) from initial_value) and real policy extraction; compared with the numpy backup; monotonicity, contraction and shift are checked on the real outputs for all ordered pairs.",
            "Dyadic alphabets; float64; single device; any maximiser accepted for the policy.", "6 C02"),
    "C08": ("histmc", "explicit-state exploration of all solve(k) histories (k in {1,2,3,5}, depth 2/3) on real solvers against a reference state machine, with state-merge (composability) assertions",
            "All 4^d histories per instance are executed on fresh real solvers (VI span/max_diff, RVI, periodic VI, semi-async fixed order); after every call iteration count, values (= n reference backups), gain, greedy policy and the stop/continue decision are compared with a reference machine implementing the documented rule; histories reaching the same iteration must hold the same state. An all-dyadic family puts the measure exactly at the threshold to decide '<' versus '<='; instances with gamma = 1 - 2^-20 keep the measure between the documented threshold and epsilon.",
            "Instances with reference stopping iteration 1..9; borderline decisions (within 1e-9 relative, except exact dyadic ties) are skipped and counted.", "6 C08"),
})

CHECKS.update({
    "C03": ("boxmc", "bounded-exhaustive enumeration of the layout box (n_states x max_batch_size x emulated device count) x solver, differential against the single-device single-batch layout on the same call history",
            "Every layout of the box (quick n<=8, b<=n+1, d<=3; thorough n<=13 plus 64..200, d in 1,2,3,4,8) x zero-vector-is/is-not-a-state x six solver variants runs the call history [1,1,1,1,60] on real solvers in worker pools with that many emulated devices; per-call values, iteration, gain, value history and the value of the returned policy must equal the baseline layout; array lengths and finiteness checked; in the offset encodings the padding vector is not a state and carries a poisoned reward, so any leak of a padding slot is visible; semi-async runs must meet their error bound for every partition.",
            "Host devices emulated with --xla_force_host_platform_device_count; Mgen(n) problems; rounding tolerance 1e-10 relative.", "6 C03"),
    "C04": ("boxmc", "bounded-exhaustive enumeration of unichain-aperiodic MDP alphabets x eps x initial values on the real RVI solver, exact g* oracle and reference recurrence",
            "Every member of Mreset(S=2) (666 canonical, unichain+aperiodic by construction), every M2d/M2s/chain-family member the graph classifier certifies for every deterministic policy, a near-tie family and a packed union are solved by the real solver for three tolerances; reported gain, the optimality equation at every state, the exact gain of the returned policy, equality with the reference recurrence, and boundedness under 50 further sweeps are asserted.",
            "Premise certified by enumeration of all deterministic policies (S<=4); g* by policy enumeration / LP.", "6 C04"),
    "C05": ("boxmc", "bounded-exhaustive enumeration of policies x value vectors (sweep level) and of initial policies x budgets x limits (evaluation / solve level) against a reference policy-iteration trace",
            "Sweep level: every MDP of M2d/M2s x every deterministic policy x every V in W^2 through the real evaluation kernel and through the public route (initial_policy + initial_value + max_eval_iter=1); evaluation level: every policy of the sliced MDPs x budgets {1,3,sufficient}; solve level: every initial policy x limits {1,2,50} x reset on/off, compared step by step with a reference trace; gamma=1/2 traces are exact (no borderline guard); a 2x2 action-vector family exercises single-component policy changes.",
            "Borderline (non-identical near-tied actions) traces are skipped and counted when gamma=0.9.", "6 C05"),
    "C06": ("boxmc", "exhaustive enumeration of update schedules (partition x per-sweep permutation for every seed of the window) on the real semi-async solver against a numpy block Gauss-Seidel",
            "For every partition of the layout box, fixed order and each seed of the seed window, the first 6 real sweeps (public solve(1)) are compared state by state with block Gauss-Seidel driven by the permutation recorded through the MDPAX_VERIF hook; permutations must be permutations, change between sweeps, be reproducible from the seed and differ between seeds; a sweep started at exact v* must return v*.",
            "Permutation observed through the guarded hook; partition through public batch_processor attributes; emulated devices.", "6 C06"),
    "C07": ("boxmc", "bounded-exhaustive enumeration of MDP alphabets x period x gamma x eps x history clearing on the real periodic solver against plain-VI reference iterates and the documented measure",
            "Every (MDP, period in {1,2,3,4,7}, gamma in {1/2,0.9,1}, eps, clear) of the box is a real solve(); returned values must be the plain VI iterate V_n, n the first iteration >= period with the documented measure below eps, the circular buffer must hold V_(n-p)..V_n in the documented slots, the policy greedy (also per call when the run is split into two solve() calls); for gamma=1 on certified unichain MDPs (incl. periodic cycles) (V_n-V_(n-p))/p is within eps/p of g*.",
            "Runs whose stop decision is within rounding noise of the threshold (amplified by gamma^-(n-1)) are skipped and counted.", "6 C07"),
    "C13": ("boxmc", "complete enumeration of every (state, action, event) for every parameter tuple of the shipped-problem boxes",
            "For each of ~750 (quick) / ~7000 (thorough) valid parameter tuples the complete probability table is tabulated from the real problem object; finiteness, non-negativity and |row sum - 1| <= 1e-4 are checked for every state-action pair. Hendrix truncation deficits are known findings keyed by the distribution parameters and measured minimum row sum.",
            "Parameter grids of DESIGN 4.4; tuples with S*A*E above the cap are outside.", "6 C13"),
    "C14": ("boxmc", "complete enumeration of listed states and positive-probability triples for every parameter tuple of the shipped-problem boxes",
            "Documented space sizes (closed-form), duplicate-free spaces, index round trip for every listed state, and exact successor membership (hash lookup, no clipping) plus index consistency for every positive-probability (state, action, event).",
            "Same parameter boxes as C13.", "6 C14"),
    "C15": ("boxmc", "complete enumeration of every (state, action, event) triple against scalar reference dynamics for every parameter tuple",
            "Successor state and reward of every triple (all probabilities, Hendrix where issued <= stock) are compared with pure-Python scalar models written from the docstrings, including unit conservation.",
            "Reference models are my reading of the documented dynamics (Forest follows the pymdptoolbox definition the class cites).", "6 C15"),
    "C16": ("boxmc", "complete enumeration of every event probability and initial value against independent scipy distributions for every parameter tuple",
            "De Moor: gamma CDF differences with censored tail (1e-9); Mirjalili: censored negative binomial x multinomial with order-dependent logits incl. distinct per-age slopes (5e-6 absolute, numpyro's own accuracy); Hendrix: brute-force joint distribution with the truncated-tail interval oracle; Forest exact; initial values per documented definition.",
            "scipy.stats as the independent reference; Hendrix compared up to the mass beyond the model's truncation point as the statement allows.", "6 C16"),
    "C17": ("boxmc", "bounded-exhaustive enumeration of tabular MDP alphabets x encodings, shipped parameter tuples and an error-path grid through the real matrix builder",
            "Builder output is compared entry by entry with numpy accumulation for block packs and slices of M2d/M2s under four encodings and both probability return types, for every small shipped tuple (non-normalised Hendrix tuples must raise), and the exact solve of the returned matrices must agree with functional value iteration; the error path is enumerated over deficit x tolerance x position with a second smaller offender.",
            "Tolerance 0 only with exactly normalised dyadic rows.", "6 C17"),
})

CHECKS.update({
    "C09": ("histmc", "exhaustive enumeration of interruption points (every k=1..N-1, chains of two in thorough) x checkpoint settings x routes, each segment a fresh interpreter, against the uninterrupted run",
            "For every solver (VI, PI with and without evaluation reset, RVI, periodic with and without history clearing, semi-async fixed order) and every interruption iteration the first segment runs with checkpointing in a fresh process, a second fresh process rebuilds the solver with restore() (no 64-bit switch pre-set) or load_checkpoint() and continues; final iteration, policy, values, gain, value history and index must equal the uninterrupted run without checkpointing (1e-12 relative; bit-identical chains are counted). Checkpointing on/off product and shuffled semi-async error bound are included.",
            "Instances converge in 4..22 iterations (Forest S=6, Mgen(9), De Moor, Hendrix); k=N chains (already converged) are recorded, not asserted.", "6 C09"),
    "C10": ("histmc", "exhaustive enumeration of (written directory, step in {latest, each retained}, every subset of the four restore overrides) in restorer processes against the writer's own recorded states",
            "20+ directories written by fresh interpreters (5 solvers x 4 shipped problems incl. tuple-valued Mirjalili parameters, one- and two-solve histories, configuration-less problems) are restored under all 16 override subsets at 'latest' (each followed by solve(2) to observe later saves), each retained explicit step under override subsets, and frequency->0; restored state (through solver_state and through the solver's raw attributes) is compared bit for bit with what the writer recorded at that save request, including a single-precision-configured writer, the configuration field-wise, the original tree by hash; five error paths.",
            "Writer records solver_state through a wrapper around the public save(); the written tree is reset to pristine before each restore. D8 (policy dropped for VI-family second-call checkpoints) is a known finding.", "6 C10"),
    "C11": ("crashmc", "crash-point enumeration over every prefix (plus torn last writes) of strace-recorded write histories, exhaustive commit-gate schedules with buffer poisoning, and SIGKILL conformance runs",
            "(a) every prefix of every recorded system-call write history (7 histories quick incl. a two-epoch restore history, a crash-restore-crash history recorded from a rebuilt crash state, periodic VI saving at every iteration and a semi-async history / 42 x 2 recordings thorough; ~2800 / ~45000 crash states incl. torn variants) is rebuilt at a same-length sibling path and recovered: restore must fail iff no step was committed, otherwise return the newest committed iteration with exactly that iteration's state (independent numpy trajectory) and continue to the uninterrupted result; (b) every placement of each background commit relative to the solver's iteration boundaries is driven through a gate on Orbax's finalize, with mutable buffers poisoned after save() returns, and every (solver progress, writer progress) directory snapshot is recovered; (c) full-log replay must reproduce the real tree byte for byte and really SIGKILLed traced runs are recovered under the same oracle.",
            "Process kill (page cache survives); cross-thread reorderings are not synthesised; Orbax 0.12.4 internals are gated from outside (AtomicRenameTemporaryPath.finalize).", "6 C11"),
    "C12": ("histmc", "explicit-state exploration of operation histories {solve(k), restore, restore(new dir), restore(max_checkpoints=1)} to depth 2/3 x (frequency, retention, sync/async, convergence iteration) against a reference directory model",
            "Every history of the alphabet is executed on the real solver - value iteration in full, and the other four solvers (each has its own save loop) at depth 2 - and on a reference model of cadence and retention; after every operation the step listing of every directory, the iteration, presence of config.yaml and presence of the last iteration of the call are compared; at the end of every history each retained step is restored and compared with the independently computed state of that iteration (value iteration, relative, semi-async and periodic VI); frequency 0 must create nothing; configuration-less problems via load_checkpoint.",
            "Restores are 'latest' only; Forest VI instances converging at N=5,6,7.", "6 C12"),
    "C20": ("boxmc", "bounded-exhaustive enumeration of solver classes x construction routes x boundary parameter values, rejection list, and construction orders in fresh interpreters",
            "gamma x epsilon fully crossed per solver (incl. gamma 0 and 1, thresholds across 1/10/100) and every other parameter one at a time are constructed by three routes (instance+kwargs, configuration object alone, reloaded config.yaml) and solved; routes must agree; every documented invalid value is rejected by instance and by config with ValueError/TypeError; in fresh interpreters three construction orders are compared after exactly 3 sweeps to separate precision from stopping. The README order (problem before 64-bit mode) is known finding D4.",
            "Boundary grids of DESIGN 6 C20; precision compared at a fixed sweep count.", "6 C20"),
})

PENDING = {}


def build():
    props = [json.loads(l)["id"] for l in open(os.path.join(ROOT, "properties.jsonl"))]
    checks = []
    for pid in props:
        if pid not in CHECKS:
            continue
        eng, tech, text, note, ref = CHECKS[pid]
        checks.append({
            "property_id": pid,
            "quick_cmd": "./check %s --tier quick" % pid,
            "thorough_cmd": "./check %s --tier thorough" % pid,
            "evidence_file": "evidence/%s.json" % pid,
            "replay_cmd_template": "./check %s --replay {path}" % pid,
            "engine": eng,
            "level_claimed": {"category": "model_checking", "text": text, "design_ref": "DESIGN.md section " + ref},
            "level_note": note,
            "technique": tech,
        })
    na = [{"property_id": p, "reason": PENDING.get(p, "check not built yet at this commit (designed in DESIGN.md section 6; to be decided by bounded-exhaustive enumeration like the others)")} for p in props if p not in CHECKS]
    man = {
        "version": 1,
        "setup_cmd": "/venv/bin/python -c \"import mdpax, numpy, scipy, jsonschema; print('ok')\"",
        "hooks": {
            "guard": "MDPAX_VERIF",
            "enable": "MDPAX_VERIF=1 in the environment (set by ./check); mdpax is installed editable from /repo/src, so checks always import the current working tree",
            "baseline_off_cmd": "cd /repo && env -u MDPAX_VERIF /venv/bin/python -m pytest -ra -q -p no:cacheprovider --timeout=900 --continue-on-collection-errors",
            "source_commits": ["b763c5a"],
            "add_only": True,
        },
        "engines": [
            {"name": "boxmc", "path": "mc/runner.py", "serves_properties": sorted(p for p, v in CHECKS.items() if v[0] == "boxmc"),
             "kind_free_text": "bounded-exhaustive product enumeration over input/configuration boxes, executed on the real code in spawned worker processes and compared with a numpy reference model"},
            {"name": "histmc", "path": "mc/histmc.py", "serves_properties": sorted(p for p, v in CHECKS.items() if v[0] == "histmc"),
             "kind_free_text": "explicit-state breadth-first search over operation histories (solve(k), restore, load_checkpoint, re-construction) with canonical state hashing; every transition executed on the real solver and on a reference state machine"},
            {"name": "crashmc", "path": "mc/crash/", "serves_properties": sorted(p for p, v in CHECKS.items() if v[0] == "crashmc"),
             "kind_free_text": "crash-point enumeration over every prefix of strace-recorded write histories plus torn last writes, and exhaustive writer-thread x solver-loop gate schedules"},
        ],
        "checks": checks,
        "not_applicable": na,
        "notes": "All checks: ./check <ID> --tier quick|thorough; evidence/<ID>.json is rewritten on every run; known_findings.json is read-only at run time. Fixes to /repo are the 'fix:' commits listed under 'fixed' in known_findings.json.",
    }
    man["engines"] = [e for e in man["engines"] if e["serves_properties"]]
    return man


if __name__ == "__main__":
    man = build()
    with open(os.path.join(ROOT, "MANIFEST.json"), "w") as f:
        json.dump(man, f, indent=1)
        f.write("\n")
    try:
        import jsonschema

        jsonschema.validate(man, json.load(open("/root/.vp/MANIFEST.schema.json")))
        print("MANIFEST.json valid; %d checks, %d not_applicable" % (len(man["checks"]), len(man["not_applicable"])))
    except ImportError:
        print("written (jsonschema unavailable)")
