"""Generates /verif/MANIFEST.json from the table below (python -m mc.manifest_gen)."""
import json
import os

ROOT = os.path.dirname(os.path.dirname(os.path.abspath(__file__)))

# id -> (engine, technique, level text, level note, design ref)
CHECKS = {
    "C18": ("boxmc", "bounded-exhaustive enumeration of all (n_states, max_batch_size, devices) layouts on the real BatchProcessor",
            "Every layout in the box is constructed on the real BatchProcessor and its arithmetic invariants checked; for the smaller box real prepare_batches/unbatch_results round trips on distinct sentinel rows with three trailing shapes. Complete inside the box, nothing sampled.",
            "Box bounds (n,b<=80 quick / 300 thorough, d<=8; arrays n<=16 / 40 plus boundary sizes); device counts beyond 3 are the constructor argument, not emulated devices.", "6 C18"),
    "C19": ("boxmc", "bounded-exhaustive enumeration of all integer boxes (dim<=3 quick, <=4 thorough, coordinates -2..3) on the real create_range_space",
            "Every (mins<=maxs) box in the coordinate range is built with the real constructor; every listed vector and every vector of the box grown by one is pushed through the real index function (vmap, jit for dim<=2, eager) and compared with itertools.product / nearest-row arithmetic.",
            "Coordinates limited to -2..3 and dimension <=4; numpy's ravel_multi_index as reference.", "6 C19"),
}

CHECKS.update({
    "C01": ("boxmc", "bounded-exhaustive enumeration of tiny-MDP alphabets x solver/test rows x gamma x eps (+ secondary axes) on real solvers, exact v*/v^pi oracle",
            "Every member of the enumerated sub-products (canonical 1-2 state MDP alphabets, tie family, block packs; 5 solver/test rows; gamma, eps; encodings, scales, initial values/policies, batch sizes, shuffle seeds) is a real solve() on a fresh solver; the returned policy is evaluated exactly by linear solve and compared with exact v* against the stated a-priori bounds. Largest observed error/bound ratio per bound is reported so vacuity is visible.",
            "Small-scope: MDPs with <=3 states (plus block-packed unions up to ~1200 states); gamma/eps grids; single device (C03 covers devices). PI bounds asserted only when the returned (V,pi) pass the evaluation stopping test.", "6 C01"),
    "C02": ("boxmc", "bounded-exhaustive enumeration of Bellman-backup rows (row alphabets R(A,E), block-packed M2d/M2s x W^2) through the real sweep kernel and solve(1)",
            "Every row of the row alphabets (all probability patterns x rewards x successor values, 3.3e5 rows for R(2,2)) and every MDP of M2d/M2s with every value vector in W^2 goes through the real sweep (private kernel with injected vector, and public solve(1) from initial_value) and real policy extraction; compared with the numpy backup; monotonicity, contraction and shift are checked on the real outputs for all ordered pairs.",
            "Dyadic alphabets; float64; single device; any maximiser accepted for the policy.", "6 C02"),
    "C08": ("histmc", "explicit-state exploration of all solve(k) histories (k in {1,2,3,5}, depth 2/3) on real solvers against a reference state machine, with state-merge (composability) assertions",
            "All 4^d histories per instance are executed on fresh real solvers (VI span/max_diff, RVI, periodic VI, semi-async fixed order); after every call iteration count, values (= n reference backups), gain, greedy policy and the stop/continue decision are compared with a reference machine implementing the documented rule; histories reaching the same iteration must hold the same state. An all-dyadic family puts the measure exactly at the threshold to decide '<' versus '<='.",
            "Instances with reference stopping iteration 1..9; borderline decisions (within 1e-9 relative, except exact dyadic ties) are skipped and counted.", "6 C08"),
})

PENDING = {}


def build():
    props = [json.loads(l)["id"] for l in open(os.path.join(ROOT, "properties.jsonl"))]
    checks = []
    for pid in props:
        if pid not in CHECKS:
            continue
        eng, tech, text, note, ref = CHECKS[pid]
        checks.append({
            "property_id": pid,
            "quick_cmd": "./check %s --tier quick" % pid,
            "thorough_cmd": "./check %s --tier thorough" % pid,
            "evidence_file": "evidence/%s.json" % pid,
            "replay_cmd_template": "./check %s --replay {path}" % pid,
            "engine": eng,
            "level_claimed": {"category": "model_checking", "text": text, "design_ref": "DESIGN.md section " + ref},
            "level_note": note,
            "technique": tech,
        })
    na = [{"property_id": p, "reason": PENDING.get(p, "check not built yet at this commit (designed in DESIGN.md section 6; to be decided by bounded-exhaustive enumeration like the others)")} for p in props if p not in CHECKS]
    man = {
        "version": 1,
        "setup_cmd": "/venv/bin/python -c \"import mdpax, numpy, scipy, jsonschema; print('ok')\"",
        "hooks": {
            "guard": "MDPAX_VERIF",
            "enable": "MDPAX_VERIF=1 in the environment (set by ./check); mdpax is installed editable from /repo/src, so checks always import the current working tree",
            "baseline_off_cmd": "cd /repo && env -u MDPAX_VERIF /venv/bin/python -m pytest -ra -q -p no:cacheprovider --timeout=900 --continue-on-collection-errors",
            "source_commits": ["b763c5a"],
            "add_only": True,
        },
        "engines": [
            {"name": "boxmc", "path": "mc/runner.py", "serves_properties": sorted(p for p, v in CHECKS.items() if v[0] == "boxmc"),
             "kind_free_text": "bounded-exhaustive product enumeration over input/configuration boxes, executed on the real code in spawned worker processes and compared with a numpy reference model"},
            {"name": "histmc", "path": "mc/histmc.py", "serves_properties": sorted(p for p, v in CHECKS.items() if v[0] == "histmc"),
             "kind_free_text": "explicit-state breadth-first search over operation histories (solve(k), restore, load_checkpoint, re-construction) with canonical state hashing; every transition executed on the real solver and on a reference state machine"},
            {"name": "crashmc", "path": "mc/crash/", "serves_properties": sorted(p for p, v in CHECKS.items() if v[0] == "crashmc"),
             "kind_free_text": "crash-point enumeration over every prefix of strace-recorded write histories plus torn last writes, and exhaustive writer-thread x solver-loop gate schedules"},
        ],
        "checks": checks,
        "not_applicable": na,
        "notes": "All checks: ./check <ID> --tier quick|thorough; evidence/<ID>.json is rewritten on every run; known_findings.json is read-only at run time. Fixes to /repo are the 'fix:' commits listed under 'fixed' in known_findings.json.",
    }
    man["engines"] = [e for e in man["engines"] if e["serves_properties"]]
    return man


if __name__ == "__main__":
    man = build()
    with open(os.path.join(ROOT, "MANIFEST.json"), "w") as f:
        json.dump(man, f, indent=1)
        f.write("\n")
    try:
        import jsonschema

        jsonschema.validate(man, json.load(open("/root/.vp/MANIFEST.schema.json")))
        print("MANIFEST.json valid; %d checks, %d not_applicable" % (len(man["checks"]), len(man["not_applicable"])))
    except ImportError:
        print("written (jsonschema unavailable)")
