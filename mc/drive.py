"""Driving the real solvers: construction, one-sweep routes, state extraction."""
import numpy as np


def solver_cls(kind):
    from mdpax import solvers as S

    return {
        "vi": S.ValueIteration,
        "pi": S.PolicyIteration,
        "rvi": S.RelativeValueIteration,
        "pvi": S.PeriodicValueIteration,
        "savi": S.SemiAsyncValueIteration,
    }[kind]


def make_solver(kind, problem, **kw):
    from mc import workers

    kw.setdefault("verbose", 0)
    s = solver_cls(kind)(problem, **kw)
    workers.quiet()
    return s


def sweep_private(solver, V, gamma=None):
    """One sweep of the real kernel on an injected value vector (accelerator route)."""
    import jax.numpy as jnp

    g = solver.gamma if gamma is None else jnp.array(float(gamma))
    out = solver._update_values(
        solver.batched_states,
        solver.problem.action_space,
        solver.problem.random_event_space,
        g,
        jnp.array(np.asarray(V, dtype=np.float64)),
    )
    return np.asarray(out)


def extract_policy_private(solver, V, gamma=None):
    import jax.numpy as jnp

    old_v, old_g = solver.values, solver.gamma
    try:
        solver.values = jnp.array(np.asarray(V, dtype=np.float64))
        if gamma is not None:
            solver.gamma = jnp.array(float(gamma))
        return np.asarray(solver._extract_policy())
    finally:
        solver.values, solver.gamma = old_v, old_g


def state_of(solver):
    """Public runtime state as plain numpy / python (for comparisons and hashing)."""
    st = solver.solver_state
    out = {
        "iteration": int(st.info.iteration),
        "values": None if st.values is None else np.asarray(st.values),
        "policy": None if st.policy is None else np.asarray(st.policy),
    }
    info = st.info
    if hasattr(info, "gain"):
        out["gain"] = float(info.gain)
    if hasattr(info, "value_history"):
        out["value_history"] = None if info.value_history is None else np.array(info.value_history, copy=True)
        out["history_index"] = int(info.history_index)
        out["period"] = int(info.period)
    # the same quantities read directly from the solver's public attributes (not through the
    # solver_state property): a hand-off that alters a field on its way to the writer shows up as a
    # difference between what the writer HELD and what a restore returns
    for name in ("iteration", "history_index", "period"):
        if hasattr(solver, name) and getattr(solver, name) is not None:
            try:
                out["attr_" + name] = int(getattr(solver, name))
            except Exception:
                pass
    if hasattr(solver, "gain"):
        try:
            out["attr_gain"] = float(solver.gain)
        except Exception:
            pass
    return out


def has_private(solver, *names):
    return all(hasattr(solver, n) for n in names)
