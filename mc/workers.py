"""Worker-process initialisation: environment first, jax afterwards."""
import logging
import os
import sys

_READY = False


def init(devices=1, x64=True):
    """Called once in every spawned worker (and by in-process users) before jax is imported."""
    global _READY
    os.environ["JAX_PLATFORMS"] = "cpu"
    os.environ["MDPAX_VERIF"] = "1"
    os.environ.setdefault("PYTHONHASHSEED", "0")
    flags = [f for f in os.environ.get("XLA_FLAGS", "").split() if "xla_force_host_platform_device_count" not in f]
    flags.append("--xla_force_host_platform_device_count=%d" % devices)
    os.environ["XLA_FLAGS"] = " ".join(flags)
    os.environ.setdefault("TF_CPP_MIN_LOG_LEVEL", "3")
    logging.getLogger("jax._src.xla_bridge").setLevel(logging.CRITICAL)
    logging.getLogger("absl").setLevel(logging.ERROR)
    import warnings

    warnings.filterwarnings("ignore")
    import jax

    if x64:
        jax.config.update("jax_enable_x64", True)
    assert len(jax.devices()) == devices, (len(jax.devices()), devices)
    from loguru import logger

    logger.remove()
    logger.disable("mdpax")
    try:
        from absl import logging as absl_logging

        absl_logging.set_verbosity(absl_logging.ERROR)
    except Exception:
        pass
    _READY = True


def ensure(devices=1, x64=True):
    if not _READY:
        init(devices, x64)


def quiet():
    """Re-silence loguru: every solver constructor re-adds a stderr sink."""
    from loguru import logger

    logger.remove()
