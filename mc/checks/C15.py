"""C15 - shipped problems' transitions and rewards match the documented dynamics."""
from mc.checks import _prob


def run(ctx):
    _prob.run_oracle(ctx, "dyn", (), "successor and reward of every triple compared with scalar models written from the docstrings (issue order, conservation, lead time, weekday cycle, cost / revenue combination); Hendrix only where units issued <= stock")


def replay(ctx, case):
    return _prob.replay_job(case)
