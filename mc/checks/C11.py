"""C11 - a crash at any moment leaves a restorable, untorn, correctly labelled checkpoint.

(a) write-history crash enumeration: each history is recorded at system-call level (strace), and for
    EVERY prefix of every recording (plus a torn last write) the directory is rebuilt and recovered;
(b) writer x solver schedules: the background commit is parked at a gate and every placement of its
    release relative to the solver's iteration boundaries is enumerated, with all mutable buffers
    poisoned after save() returns;
(c) conformance: replaying a full log reproduces the real tree byte for byte, and really SIGKILLed
    traced runs produce trees that the enumeration contains and that recover under the same oracle.
"""
import itertools
import json
import os
import pickle
import shutil
from concurrent.futures import ThreadPoolExecutor

from mc.crash import replaylib as RL

FOREST = {"S": 6, "p": 0.3, "r1": 4.0, "r2": 2.0}
SOLVER_KW = {
    "vi": dict(gamma=0.5, epsilon=0.01),
    "rvi": dict(epsilon=0.02),
    "pvi": dict(gamma=0.5, epsilon=0.01, period=3, clear_value_history_on_convergence=False),
    "savi": dict(gamma=0.5, epsilon=0.01, max_batch_size=2),
    "pi": dict(gamma=0.9, epsilon=1e-3, max_eval_iter=4),
}
ROOTDIR = os.path.dirname(os.path.dirname(os.path.dirname(os.path.abspath(__file__))))


def histories(ctx):
    q = ctx.quick
    H = [
        dict(solver="vi", f=1, m=1, asy=False, k1=3, k2=None),
        dict(solver="vi", f=1, m=1, asy=True, k1=3, k2=None),
        dict(solver="pvi", f=2, m=2, asy=True, k1=5, k2=None),
        dict(solver="vi", f=2, m=2, asy=True, k1=5, k2=3),
    ]
    H.append(dict(solver="vi", f=2, m=2, asy=True, k1=5, k2=None, crc="tmp-present", k2c=3))
    # periodic VI saving at EVERY iteration, so that every position of the circular-buffer cursor
    # (including the last slot) is checkpointed and recovered
    H.append(dict(solver="pvi", f=1, m=2, asy=True, k1=4, k2=None))
    H.append(dict(solver="savi", f=2, m=1, asy=False, k1=4, k2=None))
    H.append(dict(solver="pi", f=1, m=2, asy=True, k1=3, k2=None))
    if not q:
        H = []
        H.append(dict(solver="pvi", f=1, m=1, asy=False, k1=8, k2=3))
        for crc in ("tmp-present", "just-committed", "deletion-half-done"):
            for solver, asy in (("vi", True), ("pvi", True), ("rvi", False)):
                H.append(dict(solver=solver, f=2, m=2, asy=asy, k1=5, k2=None, crc=crc, k2c=3))
        for solver, (f, m), asy in itertools.product(("vi", "rvi", "pvi", "savi", "pi"), ((1, 1), (2, 2), (1, 2), (2, 1)), (False, True)):
            H.append(dict(solver=solver, f=f, m=m, asy=asy, k1=4 if f == 1 else 5, k2=3 if (f + m + asy) % 2 == 0 else None))
    return H


def record_history(args):
    h, hid, base, rep = args
    ROOT = os.path.join(base, "R%05d" % hid)
    shutil.rmtree(ROOT, ignore_errors=True)
    spec = dict(solver=h["solver"], kw=SOLVER_KW[h["solver"]], problem=FOREST, dir=ROOT, f=h["f"], m=h["m"])
    spec["async"] = h["asy"]
    logs, ops, conf = [], [], []
    epochs = [("first", h["k1"])] + ([("resume", h["k2"])] if h["k2"] else [])
    for i, (ep, k) in enumerate(epochs):
        log = os.path.join(base, "h%05d_e%d.log" % (hid, i))
        rc, err = RL.record(json.dumps(dict(spec, epoch=ep, k=k)), log, ROOTDIR)
        if rc != 0:
            return {"error": "traced writer epoch %s failed rc=%s: %s" % (ep, rc, err[-300:])}
        try:
            ops += RL.parse(log, ROOT)
        except RL.ParseError as e:
            return {"error": "write-history parser: %s" % e}
        os.remove(log)
        # (c1) conformance: replay of everything recorded so far == the real tree, byte for byte
        real = RL.tree(ROOT)
        dst = os.path.join(base, "C%05d" % hid)
        shutil.rmtree(dst, ignore_errors=True)
        try:
            RL.apply([o for o in ops if o[1] != "mark"], ROOT, dst)
            rep_tree = RL.tree(dst, sub=(dst.encode(), ROOT.encode()))
        except Exception as e:
            return {"error": "full replay failed: %s: %s" % (type(e).__name__, e)}
        finally:
            shutil.rmtree(dst, ignore_errors=True)
        conf.append(real == rep_tree)
        if real != rep_tree:
            diff = sorted(k for k in set(real) | set(rep_tree) if real.get(k) != rep_tree.get(k))[:5]
            return {"error": "conformance: replaying the recorded log does not reproduce the real tree (differs at %s)" % diff}
    if h.get("crc"):
        # crash-restore-crash: rebuild the crash state of the first epoch at a new root, record a resume
        # epoch that starts from that debris, and enumerate every prefix of the second epoch on top of it
        ops1 = [o for o in ops if o[1] != "mark"]
        pts = RL.crash_points(ops1, ROOT)
        if h["crc"] not in pts:
            return {"error": None, "skipped": "crash point %s does not occur in this recording" % h["crc"]}
        k = pts[h["crc"]]
        ROOT2 = os.path.join(base, "R%05d" % (hid + 5))
        shutil.rmtree(ROOT, ignore_errors=True)
        shutil.rmtree(ROOT2, ignore_errors=True)
        RL.apply(ops1[:k], ROOT, ROOT2)
        log = os.path.join(base, "h%05d_crc.log" % hid)
        rc, err = RL.record(json.dumps(dict(spec, dir=ROOT2, epoch="resume", k=h["k2c"])), log, ROOTDIR)
        if rc != 0:
            shutil.rmtree(ROOT2, ignore_errors=True)
            return {"error": "resume epoch from the crash state '%s' (after operation %d) failed rc=%s: %s" % (h["crc"], k, rc, err[-300:])}
        ops2 = RL.parse(log, ROOT2)
        os.remove(log)
        ops = RL.rebase(ops1[:k], ROOT, ROOT2) + ops2
        real = RL.tree(ROOT2)
        dst = os.path.join(base, "C%05d" % hid)
        shutil.rmtree(dst, ignore_errors=True)
        RL.apply([o for o in ops if o[1] != "mark"], ROOT2, dst)
        rep_tree = RL.tree(dst, sub=(dst.encode(), ROOT2.encode()))
        shutil.rmtree(dst, ignore_errors=True)
        shutil.rmtree(ROOT2, ignore_errors=True)
        if real != rep_tree:
            return {"error": "conformance: replay of crash-restore-crash recording does not reproduce the real tree"}
        conf.append(True)
        ROOT = ROOT2
        first_k = k
    else:
        first_k = 0
    shutil.rmtree(ROOT, ignore_errors=True)
    marks = [(i, o[2]) for i, o in enumerate(ops) if o[1] == "mark"]
    real_ops = [o for o in ops if o[1] != "mark"]
    inv = RL.structural_invariant(real_ops, ROOT)
    path = os.path.join(base, "h%05d_r%d.pkl" % (hid, rep))
    with open(path, "wb") as f:
        pickle.dump({"ops": real_ops, "ROOT": ROOT, "spec": spec}, f)
    return {"error": None, "path": path, "n": len(real_ops), "first_k": first_k, "appends": [i for i, o in enumerate(real_ops) if o[1] == "append" and len(o[3]) >= 2],
            "invariant": inv, "threads": len({o[0] for o in real_ops}), "conformance": conf, "kinds": _kinds(real_ops)}


def _kinds(ops):
    out = {}
    for o in ops:
        out[o[1]] = out.get(o[1], 0) + 1
    return out


_CACHE = {}


def recover_job(job):
    from mc.crash import recover as RC

    if job["path"] not in _CACHE:
        _CACHE.clear()
        with open(job["path"], "rb") as f:
            _CACHE[job["path"]] = pickle.load(f)
    rec = _CACHE[job["path"]]
    out = []
    base = os.path.dirname(rec["ROOT"])
    dst = os.path.join(base, "W%05d" % (os.getpid() % 100000))
    for k, torn in job["prefixes"]:
        ops = rec["ops"][:k]
        t = None
        if torn is not None:
            ln = len(ops[-1][3])
            t = ln // 2 if torn == "half" else ln - 1
        r = RC.recover({"ops": ops, "ROOT": rec["ROOT"], "dst": dst, "spec": rec["spec"], "torn": t})
        r["k"], r["torn"] = k, torn
        last = ops[-1] if ops else None
        r["last_op"] = None if last is None else "%s %s" % (last[1], last[2][len(rec["ROOT"]):])
        out.append(r)
    return out


def schedule_job(job):
    """Layer (b): one gate schedule, then judge every snapshot it produced."""
    from mc.crash import recover as RC
    from mc.crash import sched

    r = sched.run_schedule(job)
    judged = []
    spec = {"solver": job["solver"], "kw": job["kw"], "problem": job["problem"]}
    for sn in r["snaps"]:
        o = RC.judge(sn["path"], spec, set(sn["steps"]))
        o["label"], o["listing"] = sn["label"], sn["listing"]
        judged.append(o)
        shutil.rmtree(sn["path"], ignore_errors=True)
    return {"error": r["error"], "fails": r["fails"], "trace": r["trace"], "judged": judged}


def schedules(ctx):
    out = []
    # saves of one solve(K) call and the iteration boundaries available before the next save forces completion
    plans = [("pvi", 2, 2, 6, {2: (0, 1, 2), 4: (0, 1, 2)}), ("vi", 1, 1, 5, {1: (0, 1), 2: (0, 1), 3: (0, 1), 4: (0, 1)}), ("rvi", 2, 1, 4, {2: (0, 1, 2)})]
    if not ctx.quick:
        plans += [("vi", 3, 2, 6, {3: (0, 1, 2, 3)}), ("pvi", 2, 1, 8, {2: (0, 1, 2), 4: (0, 1, 2), 6: (0, 1, 2)}), ("rvi", 1, 2, 4, {1: (0, 1), 2: (0, 1), 3: (0, 1)})]
    for solver, f, m, K, delays in plans:
        keys = sorted(delays)
        for combo in itertools.product(*[delays[k] for k in keys]):
            out.append(dict(solver=solver, kw=SOLVER_KW[solver], problem=FOREST, f=f, m=m, K=K, schedule={str(k): v for k, v in zip(keys, combo)}))
    return out


def kill_job(args):
    """Layer (c2): a traced run really SIGKILLed at a gate; replay conformance + recovery of the real tree."""
    h, kill, kid, base = args
    ROOT = os.path.join(base, "K%05d" % kid)
    shutil.rmtree(ROOT, ignore_errors=True)
    spec = dict(solver=h["solver"], kw=SOLVER_KW[h["solver"]], problem=FOREST, dir=ROOT, f=h["f"], m=h["m"])
    spec["async"] = h["asy"]
    log = os.path.join(base, "k%05d.log" % kid)
    rc, err = RL.record(json.dumps(dict(spec, epoch="first", k=h["k1"], kill=kill)), log, ROOTDIR)
    out = {"rc": rc, "kill": kill, "ROOT": ROOT, "spec": spec}
    if rc == 0:
        out["not_killed"] = True  # the kill point was never reached in this history
    try:
        ops = [o for o in RL.parse(log, ROOT) if o[1] != "mark"]
    except RL.ParseError as e:
        ops = None
        out["parse_error"] = str(e)
    os.remove(log)
    if ops is not None:
        out["C"] = sorted(RL.committed_steps(ops, ROOT))
        out["n_ops"] = len(ops)
        real = RL.tree(ROOT) if os.path.isdir(ROOT) else {}
        dst = os.path.join(base, "Q%05d" % kid)
        shutil.rmtree(dst, ignore_errors=True)
        try:
            RL.apply(ops, ROOT, dst)
            rep = RL.tree(dst, sub=(dst.encode(), ROOT.encode())) if os.path.isdir(dst) else {}
            out["conforms"] = real == rep
            if real != rep:
                out["diff"] = sorted(k for k in set(real) | set(rep) if real.get(k) != rep.get(k))[:6]
        except Exception as e:
            out["conforms"] = False
            out["diff"] = ["replay raised %s: %s" % (type(e).__name__, e)]
        shutil.rmtree(dst, ignore_errors=True)
    return out


def judge_killed(job):
    from mc.crash import recover as RC

    return RC.judge(job["ROOT"], job["spec"], set(job.get("C") or []), at_least=True)


def run(ctx):
    scratch = ctx.scratch_dir()
    base = os.path.join(scratch, "c11")
    os.makedirs(base, exist_ok=True)
    H = histories(ctx)
    reps = 1 if ctx.quick else 2
    pool = ThreadPoolExecutor(8)
    args = [(h, hid * 10 + rep, base, rep) for hid, h in enumerate(H) for rep in range(reps)]
    ctx.log("recording", len(args), "traced histories")
    recs = list(pool.map(record_history, args))
    pool.shutdown()
    jobs, meta = [], []
    for (h, hid, _, rep), r in zip(args, recs):
        label = "%s f=%d m=%d %s k1=%d%s%s rec=%d" % (h["solver"], h["f"], h["m"], "async" if h["asy"] else "sync", h["k1"], (" restore k2=%d" % h["k2"]) if h["k2"] else "", (" crash@%s restore k=%d" % (h["crc"], h["k2c"])) if h.get("crc") else "", rep)
        if r["error"]:
            if r["error"].startswith("conformance") or r["error"].startswith("write-history") or r["error"].startswith("full replay"):
                raise RuntimeError("machinery: %s: %s" % (label, r["error"]))
            ctx.violation("history " + label, r["error"], h)
            continue
        if r["invariant"]:
            ctx.violation("history %s structural-invariant" % label, r["invariant"], h)
        ctx.bump("conformance_full_replays_byte_identical", len(r["conformance"]))
        if r.get("skipped"):
            ctx.outcome("crc-skipped:" + r["skipped"][:40])
            continue
        prefixes = [(k, None) for k in range(r.get("first_k", 0), r["n"] + 1)]
        for i in r["appends"]:
            if i + 1 > r.get("first_k", 0):
                prefixes += [(i + 1, "half")] if ctx.quick else [(i + 1, "half"), (i + 1, "allbut1")]
        for i in range(0, len(prefixes), 8):
            jobs.append({"path": r["path"], "prefixes": prefixes[i:i + 8]})
            meta.append(label)
        ctx.note("history:" + label, {"operations": r["n"], "writer_threads": r["threads"], "op_kinds": r["kinds"], "crash_states": len(prefixes)})
    ctx.log("crash-state recoveries", sum(len(j["prefixes"]) for j in jobs))
    res = ctx.map(recover_job, jobs)
    for label, j, rs in zip(meta, jobs, res):
        if isinstance(rs, dict) and "__error__" in rs:
            raise RuntimeError(rs["__error__"] + "\n" + rs["__tb__"])
        for r in rs:
            if r.get("machinery"):
                raise RuntimeError("machinery: %s prefix %d: %s" % (label, r["k"], r["fail"]))
            ctx.count(states=1, transitions=1, traces=1)
            ctx.outcome(("torn:" if r["torn"] else "") + r["outcome"].split("@")[0])
            if r["fail"]:
                ctx.violation("%s | %s | after %s%s" % (label.rsplit(" rec=", 1)[0], r["outcome"].split("@")[0], r["last_op"], " (torn %s)" % r["torn"] if r["torn"] else ""), "crash after operation %d of the write history: %s" % (r["k"], r["fail"]), {"history": label, "prefix": r["k"], "torn": r["torn"]})
            elif len(ctx.cov["samples"]) < 4 and r["k"] % 97 == (ctx.seed % 97):
                ctx.sample({"history": label, "crash_after_operation": r["k"], "last_op": r["last_op"], "completed_steps": r.get("C"), "outcome": r["outcome"]})
    # ---- layer (b): writer x solver gate schedules
    sj = schedules(ctx)
    for i, j in enumerate(sj):
        j["dir"] = os.path.join(base, "D%04d" % i)
        j["snapfmt"] = os.path.join(base, "S%02d" % (i % 100) + "%02d")
    ctx.log("gate schedules", len(sj))
    sres = ctx.map(schedule_job, sj)
    distinct_listings = set()
    for j, r in zip(sj, sres):
        if "__error__" in r:
            raise RuntimeError(r["__error__"] + "\n" + r["__tb__"])
        label = "schedule %s f=%d m=%d K=%d delays=%s" % (j["solver"], j["f"], j["m"], j["K"], j["schedule"])
        ctx.count(states=len(r["judged"]), transitions=len(r["trace"]), traces=1)
        ctx.bump("gate_schedules_executed")
        if r["error"]:
            ctx.violation(label, "scheduled run raised: " + r["error"], j)
        for f in r["fails"]:
            ctx.violation(label + " | " + f.split(":")[0], f, j)
        for o in r["judged"]:
            distinct_listings.add((j["solver"], tuple(o["listing"])))
            ctx.outcome("sched:" + o["outcome"].split("@")[0])
            if o["fail"]:
                ctx.violation("%s | %s | %s" % (label, o["outcome"].split("@")[0], o["label"]), "kill at '%s' (directory %s): %s" % (o["label"], o["listing"], o["fail"]), j)
        if len(ctx.cov["samples"]) < 6 and r["trace"] and j["solver"] == "pvi" and j["schedule"] == {"2": 1, "4": 2}:
            ctx.sample({"schedule": label, "trace": r["trace"]})
    ctx.note("distinct_(solver,directory listing)_states_under_schedules", len(distinct_listings))
    # ---- layer (c2): really killed traced runs
    hk = dict(solver="vi", f=2, m=2, asy=True, k1=5)
    kills = [dict(where="before_outer", step=2), dict(where="before_outer", step=4), dict(where="before_inner", step=4), dict(where="after_save_call", step=4),
             dict(where="mid_delete", step=2, count=1), dict(where="mid_delete", step=2, count=3), dict(where="mid_delete", step=2, count=5)]
    if not ctx.quick:
        kills += [dict(where="before_outer", step=5), dict(where="before_inner", step=2), dict(where="after_save_call", step=2), dict(where="mid_delete", step=2, count=2), dict(where="mid_delete", step=2, count=4), dict(where="mid_delete", step=2, count=6)]
    kp = ThreadPoolExecutor(8)
    kres = list(kp.map(kill_job, [(hk, k, i, base) for i, k in enumerate(kills)]))
    kp.shutdown()
    jres = ctx.map(judge_killed, kres)
    for kr, o in zip(kres, jres):
        if "__error__" in o:
            raise RuntimeError(o["__error__"] + "\n" + o["__tb__"])
        label = "killed %s" % kr["kill"]
        ctx.count(states=1, transitions=1, traces=1)
        ctx.outcome("kill:" + ("not-reached" if kr.get("not_killed") else o["outcome"].split("@")[0]))
        if kr.get("conforms") is True:
            ctx.bump("killed_runs_replay_byte_identical")
        elif kr.get("conforms") is False:
            ctx.bump("killed_runs_replay_differs(in-flight syscall at kill time)")
            ctx.note("kill_conformance_diff:%s" % kr["kill"], kr.get("diff"))
        if o["fail"] and not kr.get("not_killed"):
            ctx.violation("%s | %s" % (label, o["outcome"].split("@")[0]), "process really SIGKILLed at %s: %s" % (kr["kill"], o["fail"]), kr["kill"])
        shutil.rmtree(kr["ROOT"], ignore_errors=True)
    ctx.note("rule", "crash states = every prefix (0..n) of every recorded write history, plus torn variants (half; thorough also all-but-one byte) of every multi-byte write; each rebuilt at a same-length sibling path and recovered; oracle from an independent numpy trajectory")
    ctx.assume("a process kill preserves the page cache, so no unsynced-block dropping dimension; cross-thread re-orderings are not synthesised (only instants of real recordings are crash states)")
    ctx.assume("recoveries run in warm worker processes with 64-bit mode on (fresh-process precision is C09's business)")
    if not ctx.cov["samples"]:
        ctx.sample({"histories": [m for m in meta[:3]]})


def replay(ctx, case):
    return "C11 crash states are prefixes of a fresh recording; rerun ./check C11 (history and prefix are named in the case)"
