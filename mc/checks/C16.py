"""C16 - shipped problems' event probabilities equal the documented distributions."""
from mc.checks import _prob


def run(ctx):
    extra = [{"kind": "hendrix", "kw": {}, "oracles": ["probs"], "sel": list(range(0, 14641, 74))[:200], "sae": 200 * 121 * 441}]
    _prob.run_oracle(ctx, "probs", extra if not ctx.quick else (), "scipy oracles: gamma CDF differences (1e-9), censored negative binomial x multinomial (5e-6 abs), brute-force Hendrix joint distribution with the truncated-tail interval, Forest exact; initial values")


def replay(ctx, case):
    return _prob.replay_job(case)
