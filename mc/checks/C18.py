"""C18 - batching places every state exactly once and round-trips losslessly.

Exhaustive over (n_states, max_batch_size, devices) boxes: layout arithmetic for the large box,
real prepare_batches / unbatch_results round trips on sentinel rows for the smaller box.
"""
import itertools

import numpy as np

TRAILING = [(), (3,), (2, 3)]


def arith(n, b, d):
    from mdpax.utils.batch_processing import BatchProcessor

    bp = BatchProcessor(n_states=n, state_dim=1, max_batch_size=b, pmap_device_count=d)
    if bp.n_devices != d:
        return "n_devices %r != requested %d" % (bp.n_devices, d)
    if not (1 <= bp.batch_size <= b):
        return "batch_size %d outside 1..%d" % (bp.batch_size, b)
    if bp.n_batches < 1:
        return "n_batches %d" % bp.n_batches
    slots = bp.n_devices * bp.n_batches * bp.batch_size
    if bp.n_pad < 0 or slots != n + bp.n_pad:
        return "slots %d != n %d + n_pad %d" % (slots, n, bp.n_pad)
    if tuple(bp.batch_shape) != (bp.n_devices, bp.n_batches, bp.batch_size):
        return "batch_shape %r inconsistent" % (bp.batch_shape,)
    if bp.n_states != n:
        return "n_states attr %r" % bp.n_states
    return None


def arrays(n, b, d):
    """-> (n_ops, failure)"""
    import jax.numpy as jnp
    from mdpax.utils.batch_processing import BatchProcessor

    ops = 0
    for sd in (1, 2, 3):
        bp = BatchProcessor(n_states=n, state_dim=sd, max_batch_size=b, pmap_device_count=d)
        # distinct, non-zero sentinel rows
        st = (np.arange(1, n + 1)[:, None] * 10 + np.arange(1, sd + 1)[None, :]).astype(np.int32)
        bat = np.asarray(bp.prepare_batches(jnp.array(st)))
        ops += 1
        shape = (d, bp.n_batches, bp.batch_size, sd)
        if bat.shape != shape:
            return ops, "prepare_batches shape %s != %s (state_dim %d)" % (bat.shape, shape, sd)
        flat = bat.reshape(-1, sd)
        if len(flat) != n + bp.n_pad:
            return ops, "slot count %d != n + n_pad = %d" % (len(flat), n + bp.n_pad)
        if not np.array_equal(flat[:n], st):
            return ops, "states not in original order in the batched layout (state_dim %d)" % sd
        if flat[n:].any():
            return ops, "padding slots are not zero rows"
        if sd == 1:
            for tr in TRAILING:
                tot = d * bp.n_batches * bp.batch_size
                res = (np.arange(1, tot + 1).reshape((tot,) + (1,) * len(tr)) * 100.0 + np.arange(int(np.prod(tr)) if tr else 1).reshape(tr if tr else ())).astype(np.float64)
                res = res.reshape((d, bp.n_batches, bp.batch_size) + tr)
                un = np.asarray(bp.unbatch_results(jnp.array(res)))
                ops += 1
                want = res.reshape((-1,) + tr)[:n]
                if un.shape != want.shape or not np.array_equal(un, want):
                    return ops, "unbatch_results with trailing %s: shape %s, expected first %d rows in order" % (tr, un.shape, n)
    return ops, None


def work(job):
    from mc import workers

    workers.ensure(job.get("devices", 1))
    fails, ops, n = [], 0, 0
    kind = job["kind"]
    for (nn, b, d) in job["cases"]:
        n += 1
        try:
            if kind == "arith":
                f = arith(nn, b, d)
                ops += 1
            elif kind == "arrays":
                o, f = arrays(nn, b, d)
                ops += o
            else:  # default device count
                import jax
                from mdpax.utils.batch_processing import BatchProcessor

                bp = BatchProcessor(n_states=nn, state_dim=1, max_batch_size=b)
                ops += 1
                f = None
                if bp.n_devices != len(jax.devices()) or bp.n_devices != job["devices"]:
                    f = "default n_devices %r != available %d" % (bp.n_devices, len(jax.devices()))
                else:
                    f = arith(nn, b, bp.n_devices)
        except Exception as e:
            f = "raised %s: %s" % (type(e).__name__, str(e)[:160])
        if f:
            fails.append(((nn, b, d), f))
    return {"fails": fails, "ops": ops, "n": n, "kind": kind}


def _chunks(lst, k):
    return [lst[i:i + k] for i in range(0, len(lst), k)]


def run(ctx):
    N = 80 if ctx.quick else 300
    D = list(range(1, 9))
    ar = [(n, b, d) for n in range(1, N + 1) for b in range(1, N + 1) for d in D]
    if ctx.quick:
        ns = list(range(1, 17)) + [63, 64, 65]
    else:
        ns = list(range(1, 41)) + [63, 64, 65, 127, 128, 129]
    arr = []
    for n in ns:
        bs = range(1, n + 3) if n <= 40 else sorted({1, 2, 31, 63, 64, 65, n - 1, n, n + 1})
        arr += [(n, b, d) for b in bs for d in D]
    jobs = [{"kind": "arith", "cases": c} for c in _chunks(ar, 4000)]
    jobs += [{"kind": "arrays", "cases": c} for c in _chunks(arr, 60)]
    res = ctx.map(work, jobs)
    small = [(n, b, 0) for n in range(1, 14) for b in range(1, 16)]
    for dev in (1, 2, 3):
        res += ctx.map(work, [{"kind": "default", "cases": small, "devices": dev}], devices=dev, procs=1)
    kinds = {}
    for r in res:
        if "__error__" in r:
            raise RuntimeError(r["__error__"] + "\n" + r["__tb__"])
        kinds[r["kind"]] = kinds.get(r["kind"], 0) + r["n"]
        ctx.count(states=r["n"], transitions=r["ops"], traces=r["n"])
        for (n, b, d), f in r["fails"]:
            ctx.violation("%s n=%d max_batch_size=%d devices=%d" % (r["kind"], n, b, d), f, {"kind": r["kind"], "n": n, "b": b, "d": d})
    ctx.note("layouts_by_kind", kinds)
    ctx.note("rule", "arith: every (n,b,d) with n,b<=%d, d<=8; arrays: prepare/unbatch round trip on sentinel rows for n in %s (b<=n+2 or boundary set), d<=8, state_dim 1..3, trailing shapes (),(3,),(2,3); default: device count from jax.devices() under 1,2,3 emulated devices" % (N, "1..%d + boundary sizes" % (16 if ctx.quick else 40)))
    k = ctx.seed % (len(arr) - 2)
    for c in arr[k:k + 2] + ar[(ctx.seed * 7919) % len(ar):][:1]:
        ctx.sample({"n_states": c[0], "max_batch_size": c[1], "devices": c[2]})
    ctx.assume("device counts are BatchProcessor's pmap_device_count argument (1..8) and emulated host devices (1..3) for the default")


def replay(ctx, case):
    from mc import workers

    if case["kind"] == "default":
        return "replay of default-device cases needs a fresh process with that device count; rerun the check"
    workers.ensure()
    if case["kind"] == "arith":
        return arith(case["n"], case["b"], case["d"])
    return arrays(case["n"], case["b"], case["d"])[1]
