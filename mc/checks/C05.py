"""C05 - policy iteration: evaluation is accurate, termination means policy stability.

(i)   sweep level: every MDP of M2d / M2s (block-packed) x every deterministic policy x every V in W^2:
      one evaluation sweep is T_pi V at every state (public route: initial_policy + initial_value +
      max_eval_iter=1 + solve(1); accelerator: the private policy-value kernel)
(ii)  evaluation level: every policy of sliced MDPs x start vectors x tests x budgets {1,3,sufficient}
(iii) solve level: full runs from the default start and from every initial policy, iteration limits
      {1,2,50}, reset on/off, compared step by step with a reference PI trace
"""
import itertools

import numpy as np

from mc import alphabets as AL
from mc import solvecase as SC
from mc.checks.C01 import max_eval_for
from mc.ref import bellman as B

W = (-3.0, 0.0, 1.0, 4.0)


def job_sweep_pack(job):
    from mc import drive, workers
    from mc.harness import tabular as T

    workers.ensure()
    mdps = {"M2d": AL.M2d, "M2s": AL.M2s}[job["alphabet"]]()
    nxt, rew, prob, _ = AL.block_pack(mdps)
    S, A, E = nxt.shape
    g = job["gamma"]
    enc = T.enc_for(job["enc"], S, A, E)
    fails, sweeps = [], 0
    pols = [np.tile(np.array(p), S // 2) for p in itertools.product(range(A), repeat=2)]
    vecs = [np.tile(np.array(v), S // 2) for v in itertools.product(W, repeat=2)]
    if job["route"] == "private":
        pr = T.make_problem(nxt, rew, prob, enc=enc)
        s = drive.make_solver("pi", pr, gamma=g, epsilon=1e-9, max_batch_size=job["mbs"])
        if not drive.has_private(s, "_calculate_policy_values"):
            return {"states": 0, "sweeps": 0, "fails": [], "route": "skipped(no private kernel)"}
        import jax.numpy as jnp

        acts = np.asarray(pr.action_space)
        for (pi, pol), (vi, V) in itertools.product(enumerate(pols), enumerate(vecs)):
            got = np.asarray(s._calculate_policy_values(jnp.array(acts[pol]), jnp.array(V)))
            sweeps += 1
            want = B.backup_pi(nxt, rew, prob, g, V, pol)
            if got.shape != want.shape or np.abs(got - want).max() > B.tol(10.0):
                i = int(np.abs(got - want).argmax()) if got.shape == want.shape else -1
                fails.append("private kernel pi#%d V#%d: state %d got %s, T_pi V = %s" % (pi, vi, i, got[i] if i >= 0 else got.shape, want[i] if i >= 0 else want.shape))
    else:
        sel = job["sel"]
        for (pi, pol), (vi, V) in itertools.product(enumerate(pols), enumerate(vecs)):
            if (pi * len(vecs) + vi) % sel[1] != sel[0]:
                continue
            pr = T.make_problem(nxt, rew, prob, v0=V, pol0=pol, enc=enc)
            s = drive.make_solver("pi", pr, gamma=g, epsilon=1e-12, max_batch_size=job["mbs"], max_eval_iter=1)
            init_pol = T.policy_to_indices(pr, np.asarray(s.policy))
            if not np.array_equal(init_pol, pol):
                fails.append("public pi#%d: solver.policy after construction differs from problem.initial_policy at state %d" % (pi, int(np.argmax(init_pol != pol))))
            res = s.solve(1)
            sweeps += 1
            tv = B.backup_pi(nxt, rew, prob, g, V, pol)
            want = V if B.span(tv - V) < 1e-12 * (1 - g) / g else tv
            got = np.asarray(res.values)
            if got.shape != want.shape or np.abs(got - want).max() > B.tol(10.0):
                i = int(np.abs(got - want).argmax()) if got.shape == want.shape else -1
                fails.append("public pi#%d V#%d: state %d got %s, expected %s" % (pi, vi, i, got[i] if i >= 0 else got.shape, want[i] if i >= 0 else want.shape))
                continue
            q = B.q_values(nxt, rew, prob, g, got)
            rp = T.policy_to_indices(pr, np.asarray(res.policy))
            if (rp < 0).any() or (q.max(1) - q[np.arange(S), rp]).max() > B.tol(10.0, 1e-9):
                fails.append("public pi#%d V#%d: improved policy is not greedy for the evaluated values" % (pi, vi))
    return {"states": S * sweeps, "sweeps": sweeps, "fails": fails[:8], "route": job["route"]}


def judge_eval(case):
    """solve(1): values must equal the reference evaluation loop of the first policy."""
    nxt, rew, prob = SC.tables_of(case)
    S, A, _ = nxt.shape
    g, eps, test = case["gamma"], case["eps"], case["test"]
    V0 = SC.v0_of(case, S)
    pol0 = np.array(case["pol0"]) if case.get("pol0") is not None else B.q_values(nxt, rew, prob, g, np.zeros(S)).argmax(1)
    r = SC.run_case(dict(case, calls=[1]))
    out = {"key": SC.case_key(case), "fail": None, "outcome": None, "sweeps": 0, "ratio": None}
    if r["error"]:
        out["fail"] = "raised: " + r["error"]
        return out
    o0, o1 = r["obs"]
    if case.get("pol0") is not None:
        if o0["policy"] is None or not np.array_equal(o0["policy"], pol0):
            out["fail"] = "solver.policy after construction %s differs from problem.initial_policy %s" % (None if o0["policy"] is None else o0["policy"].tolist(), pol0.tolist())
            return out
    else:
        r0 = (rew * prob).sum(-1)
        p0 = o0["policy"]
        if p0 is None or (p0 < 0).any() or (r0.max(1) - r0[np.arange(S), p0]).max() > B.tol(np.abs(r0).max(), 1e-9):
            out["fail"] = "default first policy does not maximise immediate expected reward"
            return out
        pol0 = p0
    thr = B.threshold(eps, g)
    want, ok, border, sweeps = B.ref_eval(nxt, rew, prob, g, thr, test, pol0, V0, case["max_eval"])
    out["sweeps"] = sweeps
    if border:
        out["outcome"] = "borderline"
        return out
    scale = max(np.abs(want).max(), 1.0)
    if np.abs(o1["values"] - want).max() > B.tol(scale):
        out["fail"] = "values after solve(1) differ from the evaluation loop of the first policy (max dev %.3g, budget %d, ref sweeps %d)" % (np.abs(o1["values"] - want).max(), case["max_eval"], sweeps)
        return out
    out["outcome"] = "eval-converged" if ok else "eval-budget-exhausted"
    if ok and test == "max_diff":
        P, R = B.PR(nxt, rew, prob)
        vpi = B.policy_value(P, R, g, pol0)
        dv = np.abs(o1["values"] - vpi).max()
        out["ratio"] = dv / (eps / g)
        if dv > eps / g + B.tol(scale, 1e-9):
            out["fail"] = "evaluation converged under max_diff but |V - v^pi| = %.6g > eps/gamma = %.6g" % (dv, eps / g)
    return out


def judge_solve(case):
    nxt, rew, prob = SC.tables_of(case)
    S, A, _ = nxt.shape
    g, eps, test = case["gamma"], case["eps"], case["test"]
    V0 = SC.v0_of(case, S)
    limit = case["limit"]
    r = SC.run_case(dict(case, calls=[limit]))
    out = {"key": SC.case_key(case), "fail": None, "outcome": None, "sweeps": 0}
    if r["error"]:
        out["fail"] = "raised: " + r["error"]
        return out
    o0, o1 = r["obs"]
    pol0 = o0["policy"]
    if pol0 is None or (pol0 < 0).any():
        out["fail"] = "no valid initial policy"
        return out
    if case.get("pol0") is not None and not np.array_equal(pol0, np.array(case["pol0"])):
        out["fail"] = "initial policy differs from problem.initial_policy"
        return out
    if case.get("pol0") is None:
        r0 = (rew * prob).sum(-1)
        if (r0.max(1) - r0[np.arange(S), pol0]).max() > B.tol(np.abs(r0).max(), 1e-9):
            out["fail"] = "no initial policy supplied, but the first policy %s does not maximise immediate expected reward (initial values %s)" % (pol0.tolist(), V0.tolist())
            return out
    ref = B.ref_pi(nxt, rew, prob, g, eps, test, pol0, V0, limit, case["max_eval"], case.get("reset", False), exact=case.get("exact", False))
    out["sweeps"] = ref["n"]
    n = o1["iteration"]
    pol, V = o1["policy"], o1["values"]
    scale = max(np.abs(V).max(), 1.0)
    q = B.q_values(nxt, rew, prob, g, V)
    stopped_early = n < limit
    # always: returned policy must be greedy for returned values when the run stopped before the limit
    if stopped_early:
        if pol is None or (pol < 0).any() or (q.max(1) - q[np.arange(S), pol]).max() > B.tol(np.abs(q).max(), 1e-9):
            out["fail"] = "stopped at iteration %d < limit %d but the returned policy is not greedy for the returned values" % (n, limit)
            return out
    if ref["border"]:
        out["outcome"] = "borderline"
        return out
    if n != ref["n"]:
        out["fail"] = "stopped at iteration %d, reference PI at %d (%s)" % (n, ref["n"], "an improvement step still changed the policy" if n < ref["n"] else "policy was already stable")
        return out
    if np.abs(V - ref["vals"][-1]).max() > B.tol(scale):
        out["fail"] = "returned values differ from the evaluation of the last evaluated policy (max dev %.3g)" % np.abs(V - ref["vals"][-1]).max()
        return out
    if not np.array_equal(pol, ref["pols"][-1]):
        out["fail"] = "returned policy %s, reference %s" % (pol.tolist(), ref["pols"][-1].tolist())
        return out
    if stopped_early and not np.array_equal(ref["pols"][-1], ref["pols"][-2]):
        out["fail"] = "reference inconsistency"  # cannot happen
    out["outcome"] = "policy-stable" if ref["converged"] else "hit-limit"
    return out


def work(job):
    fn = job["fn"]
    if fn == "sweep_pack":
        return job_sweep_pack(job)
    if fn == "eval":
        return [judge_eval(c) for c in job["cases"]]
    return [judge_solve(c) for c in job["cases"]]


def a4_family():
    """S in 2..5 with A=4 encoded as 2x2 action vectors (changes in a single component occur)."""
    out = []
    for n in (2, 3, 4, 5):
        out.append(("Mgen(%d,A=4)" % n, AL.Mgen(n, A=4, E=2, seed=3)))
    return out


def run(ctx):
    q = ctx.quick
    jobs = []
    # (i) sweep level
    for al, g, mbs, en in itertools.product(["M2d", "M2s"], [0.9] if q else [0.5, 0.9, 1.0], [5, 1024] if q else [1, 5, 64, 1024], ["plain", "2d"] if q else ["plain", "offset", "2d", "3d-offset"]):
        jobs.append({"fn": "sweep_pack", "alphabet": al, "gamma": g, "mbs": mbs, "enc": en, "route": "private"})
    nsel = 16
    for al, en in ([("M2d", "2d")] if q else [("M2d", "2d"), ("M2s", "plain"), ("M2s", "3d-offset")]):
        for k in range(nsel):
            jobs.append({"fn": "sweep_pack", "alphabet": al, "gamma": 0.9, "mbs": 5, "enc": en, "route": "public", "sel": [k, nsel]})
    # (ii) evaluation level
    m2d = [("M2d#%d" % i, m) for i, m in enumerate(AL.M2d())]
    m2s = [("M2s#%d" % i, m) for i, m in enumerate(AL.M2s())]
    sl = (m2d[ctx.seed % 24::24] + m2s[ctx.seed % 80::80]) if q else (m2d[ctx.seed % 3::3] + m2s[ctx.seed % 6::6])
    sl += a4_family()
    ev = []
    for (name, m), test, init in itertools.product(sl, ("span", "max_diff"), ("ramp",) if q else ("zero", "ramp")):
        S, A, _ = m[0].shape
        pols = list(itertools.product(range(A), repeat=S)) if A ** S <= 16 else [tuple((i + k) % A for i in range(S)) for k in range(A)]
        for pol in pols:
            for me in (1, 3, "suff"):
                c = dict(name=name, tables=m, kind="pi", test=test, gamma=0.9, eps=0.1, init=init, pol0=list(pol), enc="2d" if A == 4 else "plain")
                c["max_eval"] = max_eval_for(c, np.abs(m[1]).max(), 5.0) if me == "suff" else me
                ev.append(c)
    # (iii) solve level
    sv = []
    for (name, m), test, reset, g in itertools.product(sl, ("span", "max_diff"), (False, True), (0.5, 0.9)):
        S, A, _ = m[0].shape
        if q and ((reset and test == "span") or (g == 0.9 and not reset)):
            continue
        pols = [None] + (list(itertools.product(range(A), repeat=S)) if A ** S <= 16 else [tuple((i + k) % A for i in range(S)) for k in range(A)])
        for pol, limit, me in itertools.product(pols, (1, 2, 50), (3, "suff")):
            if q and (limit == 2 or (me == 3 and limit == 1)):
                continue
            # gamma = 1/2 with dyadic tables and dyadic start vectors: every quantity is exactly
            # representable, so the whole trace is decided without any borderline guard
            exact = g == 0.5 and not name.startswith("Mgen")
            c = dict(name=name, tables=m, kind="pi", test=test, gamma=g, eps=0.1, init="ramp" if reset else "zero", pol0=None if pol is None else list(pol), reset=reset, limit=limit, enc="2d" if A == 4 else "plain", mbs=2 if A == 4 else 1024, exact=exact)
            c["max_eval"] = max_eval_for(c, np.abs(m[1]).max(), 5.0) if me == "suff" else me
            sv.append(c)
    jobs += [{"fn": "eval", "cases": ev[i:i + 10]} for i in range(0, len(ev), 10)]
    jobs += [{"fn": "solve", "cases": sv[i:i + 10]} for i in range(0, len(sv), 10)]
    ctx.log("jobs", len(jobs), "eval cases", len(ev), "solve cases", len(sv))
    res = ctx.map(work, jobs)
    maxratio = 0.0
    for j, r in zip(jobs, res):
        if isinstance(r, dict) and "__error__" in r:
            raise RuntimeError(r["__error__"] + "\n" + r["__tb__"])
        if j["fn"] == "sweep_pack":
            ctx.count(states=r["states"], transitions=r["sweeps"], traces=r["sweeps"])
            ctx.outcome("sweep-" + r["route"], r["sweeps"])
            for f in r["fails"]:
                ctx.violation("sweep_pack %s" % {k: v for k, v in j.items() if k != "fn"}, f, j)
            continue
        for c, o in zip(j["cases"], r):
            ctx.count(states=1, transitions=max(1, o["sweeps"]), traces=1)
            ctx.outcome("%s:%s" % (j["fn"], o["outcome"] or "failed"))
            if o.get("ratio") is not None:
                maxratio = max(maxratio, o["ratio"])
            if o["fail"]:
                ctx.violation("%s %s" % (j["fn"], o["key"]), o["fail"], {"fn": j["fn"], "case": SC.strip(c)})
    ctx.note("max_ratio_eval_error_over_eps_gamma", round(maxratio, 4))
    ctx.sample({k: v for k, v in ev[ctx.seed % len(ev)].items() if k != "tables"})
    ctx.sample({k: v for k, v in sv[(ctx.seed * 13 + 5) % len(sv)].items() if k != "tables"})
    ctx.sample(jobs[0])
    ctx.note("rule", "sweep level: block-packed M2d/M2s x all 4 policies x 16 value vectors; evaluation level and solve level: sliced M2d/M2s + A=4 (2x2 action vectors) family x every initial policy x tests x budgets x limits x reset")
    ctx.assume("exact policy/iteration comparison skipped (counted as borderline) when a reference decision is within 1e-9 relative of flipping")


def replay(ctx, case):
    if case.get("fn") == "sweep_pack":
        r = job_sweep_pack(case)
        return "; ".join(r["fails"]) or None
    o = judge_eval(case["case"]) if case["fn"] == "eval" else judge_solve(case["case"])
    return o["fail"]
