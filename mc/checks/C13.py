"""C13 - shipped problems define a probability distribution for every state-action pair."""
from mc.checks import _prob


def run(ctx):
    extra = [{"kind": "hendrix", "kw": {}, "oracles": ["dist"], "sel": list(range(0, 14641, 74))[:200], "sae": 200 * 121 * 441}]
    _prob.run_oracle(ctx, "dist", extra, "finite, >= -1e-12, |sum - 1| <= 1e-4 per (state, action); plus a 200-state slice of the default Hendrix parameterisation")


def replay(ctx, case):
    return _prob.replay_job(case)
