"""C01 - discounted solvers return near-optimal policies (and values) on convergence.

Every (MDP, solver/test row, gamma, eps, ...) of the enumerated sub-products is a real solve() on a
fresh solver; the oracle is exact v* (policy enumeration / Howard PI with linear solves) and the
exact value of the returned policy.
"""
import itertools
import math

import numpy as np

from mc import alphabets as AL
from mc import solvecase as SC
from mc.ref import bellman as B

ROWS = [("vi", "span"), ("vi", "max_diff"), ("pi", "span"), ("pi", "max_diff"), ("savi", "max_diff")]
LIMIT = 20000


def bounds_for(kind, test, g, eps):
    """-> (policy-loss bound, value bound or None, what the value bound is measured against)"""
    if kind == "vi":
        return (eps, None, None) if test == "span" else (2 * eps, eps, "v*")
    if kind == "pi":
        return (eps / g, None, None) if test == "span" else (2 * eps / g, eps / g, "vpi")
    if kind == "savi" and test == "max_diff":
        return (2 * g * eps / (1 - g), eps, "v*")
    return (None, None, None)


def max_eval_for(case, rmax, v0max):
    g, eps = case["gamma"], case["eps"]
    thr = eps * (1 - g) / g
    start = 10.0 * (rmax + 2 * v0max + 1.0)
    k = math.log(thr / start) / math.log(g) if thr < start else 1
    return int(2 * math.ceil(k) + 10)


def judge(case):
    nxt, rew, prob = SC.tables_of(case)
    S = nxt.shape[0]
    v0 = SC.v0_of(case, S)
    if case["kind"] == "pi":
        case = dict(case, max_eval=max_eval_for(case, np.abs(rew).max(), np.abs(v0).max()))
    case = dict(case, calls=[LIMIT])
    r = SC.run_case(case)
    out = {"key": SC.case_key({k: v for k, v in case.items() if k != "calls"}), "fail": None, "ratios": {}, "outcome": None, "iters": None}
    if r["error"]:
        out["fail"] = "solver raised: " + r["error"]
        out["outcome"] = "raised"
        return out
    o = r["obs"][-1]
    out["iters"] = o["iteration"]
    if o["iteration"] >= LIMIT:
        out["outcome"] = "hit-limit"
        return out
    g, eps = case["gamma"], case["eps"]
    P, R = B.PR(nxt, rew, prob)
    vs = B.vstar(P, R, g)
    pol = o["policy"]
    if pol is None or (pol < 0).any() or len(pol) != S:
        out["fail"] = "returned policy is not a list of action-space rows for every state"
        out["outcome"] = "bad-policy"
        return out
    vpi = B.policy_value(P, R, g, pol)
    V = o["values"]
    if V.shape != (S,) or not np.isfinite(V).all():
        out["fail"] = "returned values have shape %s / non-finite" % (V.shape,)
        return out
    scale = max(np.abs(vs).max(), np.abs(V).max(), eps)
    slack = B.tol(scale, 1e-9)
    loss = float((vs - vpi).max())
    pb, vb, against = bounds_for(case["kind"], case.get("test", "span"), g, eps)
    if pb is None:
        out["outcome"] = "converged-no-stated-bound"
        return out
    out["outcome"] = "converged"
    if case["kind"] == "pi":
        # the evaluation budget is sufficient by construction (max_eval_for), so the bounds are
        # asserted whenever PI reports convergence; whether the returned values are an evaluation of
        # the returned policy is only recorded
        thr = B.threshold(eps, g)
        c = B.measure(case["test"], B.backup_pi(nxt, rew, prob, g, V, pol), V)
        if not c < thr + slack:
            out["outcome"] = "converged(values are not an evaluation of the returned policy)"
    out["ratios"]["policy %s/%s" % (case["kind"], case.get("test"))] = loss / pb
    if loss > pb + slack:
        out["fail"] = "policy loss max(v*-v^pi)=%.6g exceeds bound %.6g (iteration %d)" % (loss, pb, o["iteration"])
    if vb is not None:
        ref = vs if against == "v*" else vpi
        dv = float(np.abs(V - ref).max())
        out["ratios"]["value %s/%s" % (case["kind"], case.get("test"))] = dv / vb
        if dv > vb + slack and not out["fail"]:
            out["fail"] = "|V-%s|=%.6g exceeds bound %.6g (iteration %d)" % (against, dv, vb, o["iteration"])
    return out


def work(job):
    return [judge(c) for c in job["cases"]]


def named(prefix, mdps):
    return [("%s#%d" % (prefix, i), m) for i, m in enumerate(mdps)]


def cases_for(ctx):
    q = ctx.quick
    cases = []

    def add(name, m, kind, test, g, eps, **kw):
        cases.append(dict(name=name, tables=m, kind=kind, test=test, gamma=g, eps=eps, **kw))

    base = named("M1", AL.M1()) + (named("M2d", AL.M2d())[ctx.seed % 3::3] if q else named("M2d", AL.M2d()))
    gam = [0.5, 0.9] if q else [0.25, 0.5, 0.9, 0.99]
    epss = [0.1] if q else [0.1, 1e-3, 10.0]
    if not q:
        base += named("M2s", AL.M2s())
    # (A) alphabet x rows x gamma x eps
    grid = list(itertools.product(gam, epss)) if q else [(g, e) for g in gam for e in (0.1, 1e-3)] + [(0.9, 10.0)]
    for g, eps in grid:
        fam = base + named("Mtie(g=%g,eps=%g)" % (g, eps), AL.Mtie(g, eps))
        if not q and eps == 0.1 and g in (0.5, 0.9):
            fam = fam + named("M3d", AL.M3d())[ctx.seed % 16::16]
        for (name, m), (kind, test) in itertools.product(fam, ROWS):
            if kind == "savi":
                add(name, m, kind, test, g, eps, mbs=1)
            else:
                add(name, m, kind, test, g, eps)
    # (A') anchor family (sign-symmetric value changes): all 81 members x the rows with a stated bound
    for (name, m), (kind, test) in itertools.product(named("Manchor", AL.Manchor()), ROWS if not q else [("vi", "span"), ("pi", "span"), ("vi", "max_diff")]):
        for g in ((0.9,) if q else (0.5, 0.9)):
            add(name, m, kind, test, g, 0.01, **({"mbs": 1} if kind == "savi" else {}))
    # (B) secondary axes, each crossed with the rows, on M1 + Mtie + a slice of M2d
    m2d = named("M2d", AL.M2d())
    if q:
        sl = named("M1", AL.M1())[ctx.seed % 3::3] + named("Mtie(g=0.9,eps=0.1)", AL.Mtie(0.9, 0.1)) + m2d[ctx.seed % 27::27]
    else:
        sl = named("M1", AL.M1()) + named("Mtie(g=0.9,eps=0.1)", AL.Mtie(0.9, 0.1)) + m2d[ctx.seed % 9::9]
    g, eps = 0.9, 0.1
    sec = []
    if q:
        sec += [dict(enc="3d-offset", parr=True), dict(enc="2d"), dict(scale=1000.0), dict(scale=-1.0), dict(init="seven"), dict(init="ramp"), dict(mbs=2)]
    else:
        sec += [dict(enc=e, parr=p) for e in ("offset", "2d", "3d-offset") for p in (False, True)] + [dict(enc="plain", parr=True)]
        sec += [dict(scale=s) for s in (1000.0, 0.001, -1.0)]
        sec += [dict(init=i) for i in ("seven", "ramp", "neg")]
        sec += [dict(mbs=b) for b in (1, 2, 3, 5)]
        sec += [dict(reset=True)]
    for (name, m), (kind, test), ax in itertools.product(sl, ROWS, sec):
        if "reset" in ax and kind != "pi":
            continue
        kw = dict(ax)
        if kind == "savi":
            kw.setdefault("mbs", 1)
        add(name, m, kind, test, g, eps, **kw)
    # initial policies for PI: every deterministic policy of each sliced MDP
    for (name, m), test in itertools.product(sl, ("span", "max_diff")):
        S, A, _ = m[0].shape
        for pol in itertools.product(range(A), repeat=S):
            add(name, m, "pi", test, g, eps, pol0=list(pol))
    # shuffled semi-async: seeds
    seeds = [ctx.seed * 8 + i for i in range(3 if q else 8)]
    for (name, m), sd in itertools.product(sl, seeds):
        add(name, m, "savi", "max_diff", g, eps, mbs=1, shuffle=True, seed=sd)
    # (C) block packs as single large MDPs (multi-batch, padding)
    packs = [("pack(M2d)", AL.block_pack(AL.M2d())[:3])]
    if not q:
        packs.append(("pack(M2s)", AL.block_pack(AL.M2s())[:3]))
    for (name, m), (kind, test) in itertools.product(packs, ROWS):
        for mbs in ([64] if q else [64, 7, 4096]):
            add(name, m, kind, test, 0.9, 0.1, mbs=mbs)
            if kind == "savi":
                add(name, m, kind, test, 0.9, 0.1, mbs=mbs, shuffle=True, seed=ctx.seed)
    return cases


def run(ctx):
    cases = cases_for(ctx)
    big = [c for c in cases if c["name"].startswith("pack")]
    small = [c for c in cases if not c["name"].startswith("pack")]
    jobs = [{"cases": [c]} for c in big] + [{"cases": small[i:i + 12]} for i in range(0, len(small), 12)]
    order = big + small
    ctx.log("cases", len(cases))
    res = ctx.map(work, jobs)
    flat = []
    for j, r in zip(jobs, res):
        if isinstance(r, dict) and "__error__" in r:
            raise RuntimeError(r["__error__"] + "\n" + r["__tb__"])
        flat += r
    ratios, iters = {}, {}
    for c, o in zip(order, flat):
        ctx.count(states=1, transitions=o["iters"] or 0, traces=1)
        ctx.outcome(o["outcome"])
        for k, v in o["ratios"].items():
            ratios[k] = max(ratios.get(k, 0.0), v)
        if o["fail"]:
            ctx.violation(o["key"], o["fail"], SC.strip(c))
        if o["iters"] is not None:
            b = "1" if o["iters"] == 1 else "2-9" if o["iters"] < 10 else "10-99" if o["iters"] < 100 else ">=100"
            iters[b] = iters.get(b, 0) + 1
    ctx.note("max_ratio_error_over_bound", {k: round(v, 4) for k, v in sorted(ratios.items())})
    ctx.note("stopping_iteration_histogram", iters)
    ctx.note("cases", len(cases))
    for c in (small[ctx.seed % len(small)], small[(ctx.seed * 31 + 1000) % len(small)], big[0]):
        d = {k: v for k, v in c.items() if k != "tables"}
        d["table_shape"] = list(np.asarray(c["tables"][0]).shape)
        ctx.sample(d)
    ctx.note("rule", "sub-products: (alphabet x 5 solver/test rows x gamma x eps), (slice x rows x each secondary axis: encoding, scale, initial values, batch size, reset), (slice x every initial policy for PI), (slice x shuffle seeds), block packs; non-trivial = solver reported convergence before the limit")
    ctx.assume("bounds asserted only when the solver stopped before the iteration limit; PI bounds only when the returned (V, pi) pass the evaluation stopping test (premise checked by the reference)")
    ctx.assume("single device; device counts are enumerated by C03")


def replay(ctx, case):
    o = judge(case)
    return o["fail"]
