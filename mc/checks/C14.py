"""C14 - shipped problems are closed and their state index is consistent."""
from mc.checks import _prob


def run(ctx):
    _prob.run_oracle(ctx, "closure", (), "documented space sizes, no duplicate rows, index round trip for every listed state, exact successor membership (hash lookup, no clipping) for every positive-probability triple")


def replay(ctx, case):
    return _prob.replay_job(case)
