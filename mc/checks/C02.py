"""C02 - one sweep is the exact Bellman optimality backup; the extracted policy is greedy.

(i)   every row of the row alphabets R(A,E), row-packed, x gamma x batch size x encoding x prob type
(ii)  every MDP of M2d / M2s block-packed x every V in W^2 (+ monotone / contraction / shift on real outputs)
(iii) unpacked M2d x every V in W^2
Routes: private kernel with an injected vector (accelerator, when present) and public solve(1) from
a problem whose initial_value is that vector.
"""
import itertools

import numpy as np

from mc import alphabets as AL
from mc.ref import bellman as B

W = (-3.0, 0.0, 1.0, 4.0)


def _mbs(spec, n):
    return {"S": n, "S+5": n + 5}.get(spec, spec)


def _check_sweep(tag, got, want, fails, scale):
    if got.shape != want.shape:
        fails.append("%s: returned %s entries, expected %s" % (tag, got.shape, want.shape))
        return False
    err = np.abs(got - want)
    if not np.isfinite(got).all() or err.max() > B.tol(scale):
        i = int(np.nanargmax(np.where(np.isfinite(err), err, np.inf)))
        fails.append("%s: state %d got %.12g, Bellman backup %.12g" % (tag, i, got[i], want[i]))
        return False
    return True


def _check_policy(tag, problem, policy, q, fails):
    from mc.harness.tabular import policy_to_indices

    idx = policy_to_indices(problem, policy)
    if len(idx) != q.shape[0]:
        fails.append("%s: policy has %d rows for %d states" % (tag, len(idx), q.shape[0]))
        return False
    if (idx < 0).any():
        fails.append("%s: state %d action vector %s is not in the action space" % (tag, int(np.argmax(idx < 0)), np.asarray(policy)[int(np.argmax(idx < 0))].tolist()))
        return False
    chosen = q[np.arange(len(idx)), idx]
    gap = q.max(1) - chosen
    if gap.max() > B.tol(np.abs(q).max()):
        i = int(gap.argmax())
        fails.append("%s: state %d action %d has Q %.12g < max %.12g" % (tag, i, idx[i], chosen[i], q[i].max()))
        return False
    return True


def job_rows(job):
    from mc import drive, workers
    from mc.harness import tabular as T

    workers.ensure()
    A, E, g = job["A"], job["E"], job["gamma"]
    R = (-2.0, 0.0, 1.0) if A * E <= 4 else (0.0, 1.0)
    Wv = W if A * E <= 4 else (-3.0, 4.0)  # keeps every alphabet <= 3.4e5 rows
    nxt, rew, prob, V = AL.row_alphabet(A, E, R, Wv)
    S = nxt.shape[0]
    enc = T.enc_for(job["enc"], S, A, E)
    pr = T.make_problem(nxt, rew, prob, v0=V, enc=enc, prob_as_array=job["parr"], oob_zero_prob=job.get("oob", False))
    kw = dict(gamma=g, epsilon=1e-3, max_batch_size=_mbs(job["mbs"], S))
    kind = job.get("solver", "vi")
    if kind == "pvi":
        kw["period"] = 2
    if kind == "rvi":
        kw.pop("gamma")
    s = drive.make_solver(kind, pr, **kw)
    fails, sweeps, routes = [], 0, []
    want = B.backup(nxt, rew, prob, g, V)
    scale = max(np.abs(want).max(), np.abs(V).max())
    if drive.has_private(s, "_update_values", "_extract_policy", "batched_states"):
        routes.append("private")
        got = drive.sweep_private(s, V, g)
        sweeps += 1
        _check_sweep("private sweep", got, want, fails, scale)
        pol = drive.extract_policy_private(s, V, g)
        _check_policy("private policy", pr, pol, B.q_values(nxt, rew, prob, g, V), fails)
    routes.append("public")
    res = s.solve(1)
    sweeps += 1
    gotp = np.asarray(res.values)
    wantp = want - (V[-1] if kind == "rvi" else 0.0)
    if _check_sweep("solve(1) values", gotp, wantp, fails, scale):
        _check_policy("solve(1) policy", pr, np.asarray(res.policy), B.q_values(nxt, rew, prob, g, gotp), fails)
    if int(res.info.iteration) != 1:
        fails.append("solve(1) reports iteration %d" % int(res.info.iteration))
    return {"states": S, "sweeps": sweeps, "fails": fails, "routes": routes, "layout": [s.n_devices, s.batch_processor.n_batches, s.batch_size, s.n_pad]}


def job_pack(job):
    """Block-packed alphabet x every V in W^2 through one solver (private) or one solver per V (public)."""
    from mc import drive, workers
    from mc.harness import tabular as T

    workers.ensure()
    mdps = {"M2d": AL.M2d, "M2s": AL.M2s}[job["alphabet"]]()
    nxt, rew, prob, offs = AL.block_pack(mdps)
    S, A, E = nxt.shape
    g = job["gamma"]
    enc = T.enc_for(job["enc"], S, A, E)
    fails, sweeps = [], 0
    vecs = [np.tile(np.array(v), S // 2) for v in itertools.product(W, repeat=2)]
    shifts = (-5.0, 3.0)
    outs = {}
    pr = T.make_problem(nxt, rew, prob, enc=enc, prob_as_array=job["parr"])
    s = drive.make_solver("vi", pr, gamma=g, epsilon=1e-3, max_batch_size=_mbs(job["mbs"], S))
    private = drive.has_private(s, "_update_values", "_extract_policy", "batched_states")
    route = "private" if private and not job.get("public") else "public"

    def T_real(V):
        nonlocal sweeps
        sweeps += 1
        if route == "private":
            return drive.sweep_private(s, V, g), None
        p2 = T.make_problem(nxt, rew, prob, v0=V, enc=enc, prob_as_array=job["parr"])
        s2 = drive.make_solver("vi", p2, gamma=g, epsilon=1e-3, max_batch_size=_mbs(job["mbs"], S))
        r = s2.solve(1)
        return np.asarray(r.values), np.asarray(r.policy)

    for i, V in enumerate(vecs):
        got, pol = T_real(V)
        want = B.backup(nxt, rew, prob, g, V)
        ok = _check_sweep("V#%d" % i, got, want, fails, max(np.abs(want).max(), 4.0))
        outs[i] = got
        if route == "private":
            pol = drive.extract_policy_private(s, V, g)
            _check_policy("policy V#%d" % i, pr, pol, B.q_values(nxt, rew, prob, g, V), fails)
        elif ok:
            _check_policy("policy V#%d" % i, pr, pol, B.q_values(nxt, rew, prob, g, got), fails)
        if job.get("shift") and ok:
            for c in shifts:
                gs, _ = T_real(V + c)
                if np.abs(gs - (got + g * c)).max() > B.tol(10.0):
                    fails.append("shift: T(V+%g) != TV + gamma*%g at V#%d (max dev %.3g)" % (c, c, i, np.abs(gs - (got + g * c)).max()))
    # monotone and contraction on the real outputs, all ordered pairs
    pairs = 0
    for i, j in itertools.product(range(len(vecs)), repeat=2):
        if i == j or i not in outs or j not in outs or outs[i].shape != outs[j].shape:
            continue
        pairs += 1
        V, U = vecs[i], vecs[j]
        if (V <= U).all() and (outs[i] > outs[j] + B.tol(10.0)).any():
            fails.append("monotone: V#%d <= V#%d but TV > TU somewhere" % (i, j))
        if np.abs(outs[i] - outs[j]).max() > g * np.abs(V - U).max() + B.tol(10.0):
            fails.append("contraction: |TV-TU| > gamma |V-U| for V#%d, V#%d" % (i, j))
    return {"states": S * len(vecs), "sweeps": sweeps, "fails": fails[:10], "routes": [route], "pairs": pairs, "mdps": len(mdps)}


def job_unpacked(job):
    from mc import drive, workers
    from mc.harness import tabular as T

    workers.ensure()
    mdps = AL.M2d()
    fails, sweeps, states = [], 0, 0
    g = job["gamma"]
    for k in job["idx"]:
        nxt, rew, prob = mdps[k]
        for vi, v in enumerate(itertools.product(W, repeat=2)):
            V = np.array(v)
            if vi == 0 or job["route"] == "public":
                pr = T.make_problem(nxt, rew, prob, v0=V)
                s = drive.make_solver("vi", pr, gamma=g, epsilon=1e-3, max_batch_size=job["mbs"])
            want = B.backup(nxt, rew, prob, g, V)
            if job["route"] == "private" and drive.has_private(s, "_update_values", "batched_states"):
                got = drive.sweep_private(s, V, g)
            else:
                got = np.asarray(s.solve(1).values)
            sweeps += 1
            states += 2
            _check_sweep("M2d#%d V=%s" % (k, list(v)), got, want, fails, 10.0)
    return {"states": states, "sweeps": sweeps, "fails": fails[:10], "routes": [job["route"]]}


def jobs_for(ctx):
    q = ctx.quick
    rows = []
    alph = [(2, 2), (1, 2)] if q else [(1, 1), (1, 2), (2, 1), (2, 2), (3, 2), (2, 3)]
    gammas = [0.0, 0.9, 1.0] if q else [0.0, 0.25, 0.5, 0.9, 1.0]
    mbss = [7, 1024, "S+5"] if q else [1, 7, 1024, "S", "S+5"]
    encs = ["plain", "3d-offset"] if q else ["plain", "offset", "2d", "3d-offset"]
    for (A, E), g, m, en in itertools.product(alph, gammas, mbss, encs):
        if m == 1 and (A, E) in ((2, 2), (3, 2), (2, 3)) and en != "plain":
            continue  # batch size 1 over 3e5 rows: once per alphabet is enough
        for parr in ([False] if q else [False, True]):
            rows.append({"fn": "job_rows", "A": A, "E": E, "gamma": g, "mbs": m, "enc": en, "parr": parr})
    # other value-iteration-family solvers share the sweep: public route on one alphabet
    for kind, g in (("pvi", 0.9), ("rvi", 1.0), ("savi", 0.9)):
        if kind == "savi":
            continue  # semi-async is C06's business (its sweep is not the synchronous backup)
        rows.append({"fn": "job_rows", "A": 1, "E": 2, "gamma": g, "mbs": 1024, "enc": "plain", "parr": False, "solver": kind})
    # zero-probability events whose reported successor lies outside the state space (index n_states)
    rows.append({"fn": "job_rows", "A": 2, "E": 2, "gamma": 0.9, "mbs": 1024, "enc": "plain", "parr": False, "oob": True})
    rows.append({"fn": "job_rows", "A": 1, "E": 2, "gamma": 0.5, "mbs": 7, "enc": "plain", "parr": False, "oob": True, "solver": "pvi"})
    if q:
        rows.append({"fn": "job_rows", "A": 2, "E": 2, "gamma": 0.9, "mbs": 1024, "enc": "offset", "parr": True})
        rows.append({"fn": "job_rows", "A": 1, "E": 2, "gamma": 0.5, "mbs": 7, "enc": "2d", "parr": True})
    packs = []
    for al, g, m, en in itertools.product(["M2d", "M2s"], [0.5, 0.9] if q else [0.0, 0.25, 0.5, 0.9, 1.0], [5, 1024] if q else [1, 5, "S", 1024], ["plain"] if q else ["plain", "2d", "3d-offset"]):
        packs.append({"fn": "job_pack", "alphabet": al, "gamma": g, "mbs": m, "enc": en, "parr": False, "shift": True})
    packs.append({"fn": "job_pack", "alphabet": "M2d", "gamma": 0.9, "mbs": 64, "enc": "plain", "parr": False, "public": True})
    if not q:
        packs.append({"fn": "job_pack", "alphabet": "M2s", "gamma": 0.5, "mbs": 64, "enc": "offset", "parr": True, "public": True})
    n2d = 351
    idx = list(range(n2d))
    if q:
        k = ctx.seed % 8
        idx = idx[k::8]
    unp = [{"fn": "job_unpacked", "idx": idx[i:i + 6], "gamma": 0.9, "mbs": 1024, "route": "private"} for i in range(0, len(idx), 6)]
    if not q:
        unp += [{"fn": "job_unpacked", "idx": idx[i:i + 4], "gamma": 0.5, "mbs": 1, "route": "public"} for i in range(0, len(idx), 4)]
    return rows + packs + unp


def dispatch(job):
    try:
        return globals()[job["fn"]](job)
    finally:
        # compiled executables keep the (large) embedded tables alive: drop them after every job
        import gc

        import jax

        jax.clear_caches()
        gc.collect()


def run(ctx):
    jobs = jobs_for(ctx)
    # biggest first for better packing
    jobs.sort(key=lambda j: -(j.get("A", 1) * j.get("E", 1)) if j["fn"] == "job_rows" else 0)
    res = ctx.map(dispatch, jobs)
    routes = {}
    for j, r in zip(jobs, res):
        if "__error__" in r:
            ctx.violation("job %s" % {k: v for k, v in j.items() if k != "idx"}, "real sweep raised: " + r["__error__"], j)
            continue
        ctx.count(states=r["states"], transitions=r["sweeps"], traces=r["sweeps"])
        for rt in r["routes"]:
            routes[rt] = routes.get(rt, 0) + 1
        ctx.bump("state_backups_compared", r["states"] * (2 if len(r["routes"]) > 1 else 1))
        if "pairs" in r:
            ctx.bump("ordered_pairs_checked_for_monotone_and_contraction", r["pairs"])
        for f in r["fails"]:
            key = "%s %s" % (j["fn"], {k: v for k, v in j.items() if k not in ("fn", "idx")})
            ctx.violation(key, f, j)
        if len(ctx.cov["samples"]) < 4 and j["fn"] != "job_unpacked":
            ctx.sample({**{k: v for k, v in j.items() if k != "idx"}, "layout[d,nb,bs,pad]": r.get("layout")})
    ctx.note("jobs", len(jobs))
    ctx.note("routes_used", routes)
    ctx.note("rule", "row alphabets R(A,E) with P2/P3 patterns, rewards {-2,0,1}, successor values {-3,0,1,4}; block packs of M2d(351)/M2s(592) x W^2; unpacked M2d slice x W^2; oracle = numpy backup, any maximiser accepted")
    ctx.assume("float64 kernels compared with numpy to 1e-10*(1+scale); devices=1 here (device counts are C03's axis)")


def replay(ctx, case):
    from mc import workers

    workers.ensure()
    r = dispatch(case)
    return "; ".join(r["fails"]) if r.get("fails") else None
