"""C12 - checkpoint cadence and retention follow frequency and max_checkpoints.

Explicit-state exploration of operation histories {solve(k), restore() into the same directory,
restore(new_checkpoint_dir), restore(max_checkpoints=1)} to depth 2 (quick) / 3 (thorough) for every
(frequency, retention, sync/async, convergence iteration) of the box.  Each transition is executed on
the real solver and on a reference directory model; after every operation the step listing, the
iteration, and config.yaml presence are compared, and at the end of every history each retained step
is restored and compared with the independently computed state of that iteration.
"""
import itertools
import os
import shutil

import numpy as np

from mc.ref import bellman as B

FOREST = {"S": 6, "p": 0.3, "r1": 4.0, "r2": 2.0}
G = 0.5


class DirModel:
    """Reference model of cadence, retention and restore."""

    def __init__(self, f, m, conv_at):
        self.f, self.m, self.N = f, m, conv_at
        self.it = 0
        self.dirs = {0: []}   # directory id -> sorted retained steps
        self.cur = 0
        self.last_final = None

    def _save(self, i):
        D = self.dirs[self.cur]
        if not D or i > max(D):
            D.append(i)
            self.dirs[self.cur] = sorted(D)[-self.m:]

    def solve(self, k):
        for _ in range(k):
            self.it += 1
            if self.it >= self.N:
                break
            if self.f and self.it % self.f == 0:
                self._save(self.it)
        if self.f:
            self._save(self.it)
        self.last_final = self.it

    def can_restore(self):
        return bool(self.f) and bool(self.dirs[self.cur])

    def restore(self, new_dir=False, m=None):
        self.it = max(self.dirs[self.cur])
        if m is not None:
            self.m = m
        if new_dir:
            nid = max(self.dirs) + 1
            self.dirs[nid] = []
            # state restored from the old directory, later saves go to the new one
            self.cur = nid

    def key(self):
        return (self.it, self.m, self.cur, tuple(sorted((k, tuple(v)) for k, v in self.dirs.items())))


def forest_traj(eps, n=40):
    """Independent reference trajectory of VI on the Forest instance (numpy)."""
    S, p, r1, r2 = FOREST["S"], FOREST["p"], FOREST["r1"], FOREST["r2"]
    nxt = np.zeros((S, 2, 2), dtype=int)
    rew = np.zeros((S, 2, 2))
    prob = np.zeros((S, 2, 2))
    for s in range(S):
        nxt[s, 0] = [min(s + 1, S - 1), 0]
        prob[s, 0] = [1 - p, p]
        rew[s, 0] = r1 if s == S - 1 else 0.0
        nxt[s, 1] = [0, 0]
        prob[s, 1] = [1, 0]
        rew[s, 1] = r2 if s == S - 1 else (0.0 if s == 0 else 1.0)
    ref = B.ref_vi(nxt, rew, prob, G, eps, "span", np.zeros(S), n)
    return ref


def steps_in(d):
    if not os.path.isdir(d):
        return None
    return sorted(int(x) for x in os.listdir(d) if x.isdigit())


def run_path(job):
    from mc import drive, workers

    workers.ensure()
    from mdpax.problems import Forest

    f, m, asy, eps, N, path, base = job["f"], job["m"], job["async"], job["eps"], job["N"], job["path"], job["base"]
    lite = job.get("lite", False)
    shutil.rmtree(base, ignore_errors=True)
    dirs = {0: os.path.join(base, "d0")}
    model = DirModel(f, m, N)
    solver = job.get("solver", "vi")
    cls = drive.solver_cls(solver)
    skw = dict(job.get("skw") or dict(gamma=G, epsilon=eps))
    fails, nodes, ops = [], [], 0
    traj = job["traj"]

    def mkproblem():
        if lite:
            from mc.seg import build_problem

            return build_problem({"kind": "tab", "n": 6})
        return Forest(**FOREST)

    def construct(d):
        s = cls(mkproblem(), verbose=0, checkpoint_dir=d, checkpoint_frequency=f, max_checkpoints=model.m, enable_async_checkpointing=asy, **skw)
        workers.quiet()
        return s

    try:
        s = construct(dirs[0])
        if f == 0 and os.path.exists(dirs[0]):
            fails.append("frequency 0 but the checkpoint directory was created")
        for op in path:
            tag = "after %s in history %s" % (op, list(path))
            if op[0] == "s":
                s.solve(int(op[1:]))
                if s.checkpoint_manager is not None:
                    s.checkpoint_manager.wait_until_finished()
                model.solve(int(op[1:]))
            else:
                if not model.can_restore():
                    break  # not enabled in this state
                src = dirs[model.cur]
                if lite:
                    # configuration-less problem: rebuild by hand and load_checkpoint
                    if op == "Rnew":
                        nid = max(dirs) + 1
                        dirs[nid] = os.path.join(base, "d%d" % nid)
                        model.restore(new_dir=True)
                        s = construct(dirs[nid])
                    elif op == "Rm1":
                        model.restore(m=1)
                        s = construct(src)
                    else:
                        model.restore()
                        s = construct(src)
                    s.load_checkpoint(src)
                elif op == "R":
                    s = cls.restore(src)
                    model.restore()
                elif op == "Rm1":
                    s = cls.restore(src, max_checkpoints=1)
                    model.restore(m=1)
                else:
                    nid = max(dirs) + 1
                    dirs[nid] = os.path.join(base, "d%d" % nid)
                    s = cls.restore(src, new_checkpoint_dir=dirs[nid])
                    model.restore(new_dir=True)
                workers.quiet()
            ops += 1
            nodes.append(model.key())
            if int(s.iteration) != model.it:
                fails.append("%s: solver iteration %d, model %d" % (tag, int(s.iteration), model.it))
                break
            for did, path_ in dirs.items():
                real = steps_in(path_)
                if f == 0:
                    if real is not None:
                        fails.append("%s: frequency 0 but %s exists" % (tag, path_))
                    continue
                exp = model.dirs[did]
                if real != exp:
                    fails.append("%s: directory d%d holds steps %s, cadence/retention model says %s (f=%d, m=%d)" % (tag, did, real, exp, f, model.m))
                has_cfg = os.path.exists(os.path.join(path_, "config.yaml"))
                if has_cfg != (not lite):
                    fails.append("%s: config.yaml %s in d%d although the problem %s a configuration" % (tag, "present" if has_cfg else "missing", did, "lacks" if lite else "has"))
            if f and model.last_final is not None and op[0] == "s" and model.last_final not in (steps_in(dirs[model.cur]) or []):
                fails.append("%s: the last iteration %d of the most recent solve() call is not among the checkpoints" % (tag, model.last_final))
            if fails:
                break
        # every retained step holds the solver state of that iteration
        if f and not fails and not lite and traj is not None:
            for did, path_ in dirs.items():
                for st in (steps_in(path_) or []):
                    chk = os.path.join(base, "chk")
                    shutil.rmtree(chk, ignore_errors=True)
                    r = cls.restore(path_, step=st, new_checkpoint_dir=chk)
                    workers.quiet()
                    ops += 1
                    if st >= len(traj):
                        continue
                    if int(r.iteration) != st or np.abs(np.asarray(r.values) - traj[st]).max() > 1e-10 * (1 + np.abs(traj[st]).max()):
                        fails.append("retained step %d of d%d restores to iteration %d / values off by %.3g" % (st, did, int(r.iteration), np.abs(np.asarray(r.values) - traj[st]).max()))
    except Exception as e:
        fails.append("raised %s: %s" % (type(e).__name__, str(e)[:200]))
    finally:
        try:
            if getattr(s, "checkpoint_manager", None) is not None:
                s.checkpoint_manager.wait_until_finished()
        except Exception:
            pass
        shutil.rmtree(base, ignore_errors=True)
    return {"fails": fails, "nodes": nodes, "ops": ops}


def run(ctx):
    q = ctx.quick
    depth = 2 if q else 3
    alphabet = ["s1", "s2", "s3", "R", "Rnew", "Rm1"] if q else ["s1", "s2", "s4", "R", "Rnew", "Rm1"]
    paths = [p for p in itertools.product(alphabet, repeat=depth) if p[0][0] == "s"]  # a restore needs a prior solve
    # instances: epsilon chosen so that VI converges at N = 5, 6, 7
    inst = {}
    for eps in (0.4, 0.3, 0.2, 0.15, 0.1, 0.07, 0.05, 0.035, 0.025, 0.0175, 0.0125):
        r = forest_traj(eps)
        if r["converged"] and not r["border"] and 5 <= r["n"] <= 7 and r["n"] not in inst:
            inst[r["n"]] = eps
    traj = [t for t in forest_traj(1e-9, 30)["traj"]]
    Ns = sorted(inst)[: (2 if q else 3)]
    ctx.note("instances", {"N=%d" % n: "Forest(S=6,p=0.3) gamma=0.5 epsilon=%g" % inst[n] for n in Ns})
    fs = [0, 1, 2, 3] if q else [0, 1, 2, 3, 4]
    ms = [1, 2] if q else [1, 2, 3]
    scratch = ctx.scratch_dir()
    jobs = []
    for f, m, N, asy in itertools.product(fs, ms, Ns, (False, True)):
        if not q and (f + m + N) % 2 != int(asy) and f not in (1, 2):
            continue  # thorough: full async cross only for f in {1,2}; alternate elsewhere
        for p in paths:
            jobs.append({"f": f, "m": m, "async": asy, "eps": inst[N], "N": N, "path": list(p), "traj": traj, "base": os.path.join(scratch, "c12_%d" % len(jobs))})
    # the save cadence is coded separately in every solver's solve() loop: the other four solvers
    from mc.checks.C08 import RefMachine
    from mc.ref import problems as RP

    tabs = RP.forest_tables(FOREST)
    others = {}
    for name, kw, case in (
        ("rvi", dict(epsilon=0.15), dict(kind="rvi", eps=0.15)),
        ("savi", dict(gamma=G, epsilon=0.05, max_batch_size=2), dict(kind="savi", eps=0.05, gamma=G, test="span")),
        ("pvi", dict(gamma=G, epsilon=0.01, period=3), dict(kind="pvi", eps=0.01, gamma=G, period=3)),
    ):
        m_ = RefMachine(dict(case, tables=tabs, init="zero"), (1, 3, 2, 0))
        m_.solve(60)
        if not m_.border:
            n_ = m_.n if m_.n < 60 else 10 ** 6
            for _ in range(10):
                m_.solve(1)  # a few sweeps past convergence (later solve() calls add one sweep each)
            others[name] = (kw, n_, [t.copy() for t in m_.traj])
    rp = B.ref_pi(tabs[0], tabs[1], tabs[2], 0.9, 1e-3, "span", B.q_values(tabs[0], tabs[1], tabs[2], 0.9, np.zeros(6)).argmax(1), np.zeros(6), 50, 4, False)
    if not rp["border"] and rp["converged"]:
        others["pi"] = (dict(gamma=0.9, epsilon=1e-3, max_eval_iter=4), rp["n"], None)
    ctx.note("other_solver_instances", {k: "N=%s %s%s" % (v[1], v[0], "" if v[2] is not None else " (listing only)") for k, v in others.items()})
    for name, (kw, N_, traj_) in others.items():
        for f, m, asy in ([(1, 1, True), (2, 2, False), (3, 1, True)] if q else itertools.product((1, 2, 3), (1, 2), (False, True))):
            for p in paths:
                jobs.append({"solver": name, "skw": kw, "f": f, "m": m, "async": asy, "eps": kw["epsilon"], "N": N_, "path": list(p), "traj": traj_, "base": os.path.join(scratch, "c12_%d" % len(jobs))})
    if q:  # one configuration at depth 3 as well
        for p in [p for p in itertools.product(alphabet, repeat=3) if p[0][0] == "s"]:
            jobs.append({"f": 2, "m": 2, "async": True, "eps": inst[Ns[0]], "N": Ns[0], "path": list(p), "traj": traj, "base": os.path.join(scratch, "c12_%d" % len(jobs))})
    # configuration-less problem (load_checkpoint route)
    for f, m, asy in itertools.product((0, 2), (1, 2), (True,)):
        for p in paths:
            jobs.append({"f": f, "m": m, "async": asy, "eps": 1e-6, "N": 10 ** 6, "path": list(p), "traj": None, "lite": True, "base": os.path.join(scratch, "c12_%d" % len(jobs))})
    ctx.log("histories", len(jobs))
    res = ctx.map(run_path, jobs, chunksize=2)
    states = set()
    for j, r in zip(jobs, res):
        if "__error__" in r:
            raise RuntimeError(r["__error__"] + "\n" + r["__tb__"])
        ctx.count(transitions=r["ops"], traces=1)
        cfgk = (j.get("solver", "vi"), j["f"], j["m"], j["async"], j["N"], j.get("lite", False))
        for nd in r["nodes"]:
            states.add((cfgk, nd))
        ctx.outcome(("config-less" if j.get("lite") else ("async" if j["async"] else "sync")) + ":" + j.get("solver", "vi"))
        for f in r["fails"][:2]:
            ctx.violation("%s f=%d m=%d async=%s N=%s lite=%s history=%s" % (j.get("solver", "vi"), j["f"], j["m"], j["async"], j["N"], j.get("lite", False), j["path"]), f, {k: v for k, v in j.items() if k != "traj"})
    ctx.count(states=len(states))
    ctx.note("history_depth", depth)
    ctx.note("operation_alphabet", alphabet)
    ctx.sample({"f": jobs[ctx.seed % len(jobs)]["f"], "m": jobs[ctx.seed % len(jobs)]["m"], "history": jobs[ctx.seed % len(jobs)]["path"]})
    ctx.sample({"f": jobs[-1]["f"], "m": jobs[-1]["m"], "history": jobs[-1]["path"], "config_less": True})
    ctx.note("rule", "states = distinct (configuration, model state) pairs reached; transitions = operations executed on the real solver (incl. per-step restores at the end of each history)")
    ctx.assume("restores are 'latest' only (restoring an explicitly older step into the same directory is outside C12's quantifier)")


def replay(ctx, case):
    traj = [t for t in forest_traj(1e-9, 30)["traj"]]
    job = dict(case, traj=traj, base=os.path.join(ctx.scratch_dir(), "replay"))
    r = ctx.map(run_path, [job], procs=1)[0]
    return "; ".join(r["fails"]) or None
