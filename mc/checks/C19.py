"""C19 - range spaces enumerate the integer box and the index function inverts them.

Exhaustive over every (mins, maxs) with coordinates in LO..HI, mins <= maxs, dimension 1..D;
for each box every listed vector and every vector of the box grown by one in each direction.
"""
import itertools

import numpy as np

LO, HI = -2, 3


def boxes(dim):
    rng = range(LO, HI + 1)
    pairs = [(a, b) for a in rng for b in rng if a <= b]
    for combo in itertools.product(pairs, repeat=dim):
        yield tuple(c[0] for c in combo), tuple(c[1] for c in combo)


def check_box(mins, maxs, how):
    """-> (n_index_calls, failure-or-None)"""
    import jax
    import jax.numpy as jnp
    from mdpax.utils.spaces import create_range_space

    d = len(mins)
    if how % 3 == 0:
        space, f = create_range_space(list(mins), list(maxs))
    elif how % 3 == 1:
        space, f = create_range_space(np.array(mins), np.array(maxs))
    else:
        space, f = create_range_space(jnp.array(mins), jnp.array(maxs))
    exp = np.array(list(itertools.product(*[range(a, b + 1) for a, b in zip(mins, maxs)])), dtype=np.int64).reshape(-1, d)
    got = np.asarray(space)
    if got.shape != exp.shape or not np.array_equal(got, exp):
        return 0, "space differs from row-major product: shape %s vs %s" % (got.shape, exp.shape)
    if len({tuple(r) for r in got.tolist()}) != len(got):
        return 0, "duplicate rows"
    n = len(exp)
    idx = np.asarray(jax.vmap(f)(space))
    calls = n
    if not np.array_equal(idx, np.arange(n)):
        bad = int(np.argmax(idx != np.arange(n)))
        return calls, "index_fn(space[%d]=%s) = %d (vmap)" % (bad, exp[bad].tolist(), int(idx[bad]))
    # direct, un-transformed calls on the first and last listed vector
    for i in {0, n - 1}:
        if int(f(space[i])) != i:
            return calls, "index_fn(space[%d]) = %d (direct call)" % (i, int(f(space[i])))
        calls += 1
    # vectors of the grown box (includes every inside vector again, and all one-off outside vectors)
    grown = np.array(list(itertools.product(*[range(a - 1, b + 2) for a, b in zip(mins, maxs)])), dtype=np.int32).reshape(-1, d)
    near = np.clip(grown, np.array(mins), np.array(maxs))
    dims = np.array(maxs) - np.array(mins) + 1
    want = np.ravel_multi_index(tuple((near - np.array(mins)).T), tuple(dims))
    gi = np.asarray(jax.vmap(f)(jnp.array(grown)))
    calls += len(grown)
    if not np.array_equal(gi, want):
        bad = int(np.argmax(gi != want))
        return calls, "outside/inside vector %s -> row %d, nearest row is %d" % (grown[bad].tolist(), int(gi[bad]), int(want[bad]))
    # far outside vectors (distance 7) on each axis
    far = []
    for ax in range(d):
        for sgn in (-7, 7):
            v = np.array(mins, dtype=np.int32)
            v[ax] += sgn
            far.append(v)
    far = np.array(far, dtype=np.int32)
    nf = np.clip(far, np.array(mins), np.array(maxs))
    wf = np.ravel_multi_index(tuple((nf - np.array(mins)).T), tuple(dims))
    gf = np.asarray(jax.vmap(f)(jnp.array(far)))
    calls += len(far)
    if not np.array_equal(gf, wf):
        return calls, "far vector mapped to %s, expected %s" % (gf.tolist(), wf.tolist())
    if d <= 2:
        gj = np.asarray(jax.jit(jax.vmap(f))(jnp.array(grown)))
        calls += len(grown)
        if not np.array_equal(gj, want):
            return calls, "under jit: rows %s, expected %s" % (gj.tolist()[:8], want.tolist()[:8])
    return calls, None


def work(job):
    from mc import workers

    workers.ensure()
    out = []
    calls = 0
    for k, (mins, maxs) in enumerate(job["boxes"]):
        try:
            c, fail = check_box(mins, maxs, job["how"] + k)
        except Exception as e:  # the property promises no raise
            c, fail = 0, "raised %s: %s" % (type(e).__name__, str(e)[:120])
        calls += c
        if fail:
            out.append((mins, maxs, fail))
    return {"calls": calls, "fails": out, "n": len(job["boxes"])}


def run(ctx):
    dims = [1, 2, 3] if ctx.quick else [1, 2, 3, 4]
    allb = []
    per_dim = {}
    for d in dims:
        b = list(boxes(d))
        per_dim[str(d)] = len(b)
        allb += b
    chunk = 60 if ctx.quick else 400
    jobs = [{"boxes": allb[i:i + chunk], "how": ctx.seed + i} for i in range(0, len(allb), chunk)]
    res = ctx.map(work, jobs)
    for r in res:
        if "__error__" in r:
            raise RuntimeError(r["__error__"] + "\n" + r["__tb__"])
        ctx.count(states=r["n"], transitions=r["calls"], traces=r["n"])
        for mins, maxs, fail in r["fails"]:
            ctx.violation("box mins=%s maxs=%s" % (list(mins), list(maxs)), fail, {"mins": list(mins), "maxs": list(maxs)})
    ctx.note("boxes_per_dimension", per_dim)
    ctx.note("coordinate_range", [LO, HI])
    ctx.note("rule", "every (mins<=maxs) box with coordinates in [%d,%d] for each listed dimension; every vector of the box grown by 1, plus far vectors; vmap for all, jit for dim<=2, direct calls on first/last row" % (LO, HI))
    k = ctx.seed % max(1, len(allb) - 3)
    for mins, maxs in allb[k:k + 3]:
        ctx.sample({"mins": list(mins), "maxs": list(maxs)})
    nonzero = sum(1 for m, _ in allb if any(x != 0 for x in m))
    ctx.note("boxes_with_nonzero_lower_bound", nonzero)
    ctx.note("boxes_with_zero_width_dimension", sum(1 for m, M in allb if any(a == b for a, b in zip(m, M))))
    ctx.assume("coordinates limited to [%d,%d] and dimension <= %d; index function exercised under vmap (all), jit (dim<=2) and eagerly (two rows per box)" % (LO, HI, dims[-1]))


def replay(ctx, case):
    from mc import workers

    workers.ensure()
    for how in range(3):
        _, fail = check_box(tuple(case["mins"]), tuple(case["maxs"]), how)
        if fail:
            return fail
    return None
