"""C06 - the semi-asynchronous sweep is block Gauss-Seidel in the documented order.

A schedule space: every partition (n_states x max_batch_size x devices) of the layout box, fixed
order and every shuffle seed of the seed window, the first SWEEPS sweeps of each.  Every real sweep
(public solve(1)) is compared with a numpy block Gauss-Seidel driven by the permutation the solver
recorded through the MDPAX_VERIF hook and the public partition attributes.
"""
import itertools

import numpy as np

from mc import alphabets as AL
from mc import solvecase as SC
from mc.ref import bellman as B

SWEEPS = 6
G = 0.9


def chain_mdp(n):
    """Deterministic ring: a missed or doubled update changes the result visibly."""
    nxt = np.array([[[(s + 1) % n]] for s in range(n)], dtype=np.int32)
    rew = np.array([[[float(s + 1)]] for s in range(n)])
    return AL.mdp(nxt, rew, 1.0)


def tables_for(case):
    if case["mdp"] == "gen":
        return AL.Mgen(case["n"])
    if case["mdp"] == "ring":
        return chain_mdp(case["n"])
    if case["mdp"] == "packM2s":
        return AL.block_pack(AL.M2s())[:3]
    raise KeyError(case["mdp"])


def judge(case):
    nxt, rew, prob = tables_for(case)
    n = nxt.shape[0]
    base = dict(name="%s(%d)" % (case["mdp"], n), tables=(nxt, rew, prob), kind="savi", test="max_diff", gamma=G, eps=1e-12,
                mbs=case["mbs"], shuffle=case["shuffle"], seed=case["seed"], enc=case.get("enc", "plain"), devices=case["devices"])
    V0 = (np.arange(n) % 7) * 1.25 - 3.0 + (np.arange(n) // 7) * 0.5
    out = {"key": "mdp=%s n=%d mbs=%d devices=%d shuffle=%s seed=%s enc=%s" % (case["mdp"], n, case["mbs"], case["devices"], case["shuffle"], case["seed"], case.get("enc", "plain")),
           "fail": None, "sweeps": 0, "perms": None, "traj": None, "layout": None}
    r = SC.run_case(dict(base, v0=V0, calls=[1] * SWEEPS))
    if r["error"]:
        out["fail"] = "raised: " + r["error"]
        return out
    perms = r["perms"]
    d, nb, bs, pad = r["layout"]
    out["layout"] = r["layout"]
    if d != case["devices"]:
        out["fail"] = "solver uses %d devices, %d available" % (d, case["devices"])
        return out
    if perms is None or len(perms) != SWEEPS:
        out["fail"] = "MDPAX_VERIF hook recorded %s permutations for %d sweeps" % (None if perms is None else len(perms), SWEEPS)
        return out
    V = V0.copy()
    traj = []
    for k in range(SWEEPS):
        o = r["obs"][k + 1]
        if o["iteration"] != k + 1:
            out["fail"] = "solve(1) #%d left iteration at %d (eps is tiny: no convergence expected)" % (k + 1, o["iteration"])
            return out
        perm = perms[k]
        if case["shuffle"]:
            if perm is None or sorted(perm) != list(range(n)):
                out["fail"] = "sweep %d: recorded order %s is not a permutation of all states" % (k + 1, perm)
                return out
            order = perm
        else:
            if perm is not None:
                out["fail"] = "sweep %d: fixed order requested but a permutation was used" % (k + 1)
                return out
            order = list(range(n))
        want = B.block_gauss_seidel(nxt, rew, prob, G, V, B.slots_for(order, d, nb, bs))
        got = o["values"]
        out["sweeps"] += 1
        if got.shape != want.shape or np.abs(got - want).max() > B.tol(np.abs(want).max()):
            i = int(np.abs(got - want).argmax()) if got.shape == want.shape else -1
            out["fail"] = "sweep %d: state %d got %.12g, block Gauss-Seidel in the documented order gives %.12g (layout d=%d nb=%d bs=%d pad=%d)" % (k + 1, i, got[i] if i >= 0 else np.nan, want[i] if i >= 0 else np.nan, d, nb, bs, pad)
            return out
        V = got
        traj.append(got)
    out["perms"] = perms
    out["traj"] = [t.tolist() for t in traj]
    if case["shuffle"] and n >= 6 and all(p == perms[0] for p in perms):
        out["fail"] = "all %d sweeps used the same permutation %s (not drawn afresh per sweep)" % (SWEEPS, perms[0])
        return out
    # same fixed point as synchronous VI: one real sweep started at exact v* returns v*
    if case.get("fixpoint", True):
        P, R = B.PR(nxt, rew, prob)
        vs = B.vstar(P, R, G)
        r2 = SC.run_case(dict(base, v0=vs, calls=[1]))
        if r2["error"]:
            out["fail"] = "fixed-point run raised: " + r2["error"]
            return out
        out["sweeps"] += 1
        dev = np.abs(r2["obs"][1]["values"] - vs).max()
        if dev > B.tol(np.abs(vs).max(), 1e-9):
            out["fail"] = "a sweep started at v* moved it by %.3g (not the fixed point of synchronous VI)" % dev
    return out


def work(job):
    return [judge(c) for c in job["cases"]]


def layouts(ctx):
    q = ctx.quick
    if q:
        ns = [1, 2, 3, 5, 7]
        devs = [1, 2]
    else:
        ns = list(range(1, 14)) + [64, 65, 127, 128, 129, 200]
        devs = [1, 2, 3, 4, 8]
    out = []
    for n in ns:
        bs = range(1, n + 2) if n <= 13 else [1, 63, 64, 65, n]
        for b, d in itertools.product(bs, devs):
            out.append((n, b, d))
    return out, devs


def run(ctx):
    q = ctx.quick
    lay, devs = layouts(ctx)
    seeds = [ctx.seed * 8 + i for i in range(4 if q else 8)]
    by_dev = {d: [] for d in devs}
    for (n, b, d) in lay:
        variants = [(False, None)] + [(True, sd) for sd in seeds]
        if n > 13:
            variants = [(False, None)] + [(True, sd) for sd in seeds[:2]]
        for sh, sd in variants:
            by_dev[d].append(dict(mdp="gen", n=n, mbs=b, devices=d, shuffle=sh, seed=sd if sh else 42, fixpoint=(n <= 13 and (not sh or sd == seeds[0]))))
        if n in (3, 7, 12):
            for sh, sd in [(False, None), (True, seeds[0])]:
                by_dev[d].append(dict(mdp="ring", n=n, mbs=b, devices=d, shuffle=sh, seed=sd if sh else 42, enc="offset", fixpoint=False))
    for d in devs:
        for b in ([7, 64] if q else [1, 7, 64, 4096]):
            for sh, sd in [(False, 42), (True, seeds[0]), (True, seeds[1])]:
                by_dev[d].append(dict(mdp="packM2s", n=1184, mbs=b, devices=d, shuffle=sh, seed=sd, fixpoint=not sh))
    allres = []
    for d in devs:
        cases = by_dev[d]
        jobs = [{"cases": cases[i:i + 6]} for i in range(0, len(cases), 6)]
        ctx.log("devices", d, "cases", len(cases))
        res = ctx.map(work, jobs, devices=d)
        ctx.close_pool(d)
        for j, r in zip(jobs, res):
            if isinstance(r, dict) and "__error__" in r:
                raise RuntimeError(r["__error__"] + "\n" + r["__tb__"])
            allres += list(zip(j["cases"], r))
    # reproducibility from random_seed: identical (layout, seed) pairs were not run twice above, so
    # run the seed-0 window twice for a few layouts and compare; different seeds must differ
    rep_cases = [dict(mdp="gen", n=n, mbs=b, devices=1, shuffle=True, seed=sd, fixpoint=False) for (n, b) in ((7, 2), (7, 3), (5, 1)) for sd in seeds[:2]]
    rep = ctx.map(work, [{"cases": rep_cases}, {"cases": rep_cases}], devices=1)
    ctx.close_pool(1)
    for (c, a), (_, b2) in zip(zip(rep_cases, rep[0]), zip(rep_cases, rep[1])):
        if a["fail"] or b2["fail"]:
            continue
        ctx.count(transitions=2 * SWEEPS, traces=2)
        if a["perms"] != b2["perms"] or a["traj"] != b2["traj"]:
            ctx.violation("reproducibility " + a["key"], "two solvers built with the same random_seed produced different permutation / value sequences", c)
    seen = {}
    distinct_perms = set()
    for c, o in allres:
        ctx.count(states=1, transitions=o["sweeps"], traces=1)
        ctx.outcome("shuffled" if c["shuffle"] else "fixed-order")
        if o["layout"]:
            ctx.outcome("layout-with-padding" if o["layout"][3] else "layout-without-padding")
        if o["fail"]:
            ctx.violation(o["key"], o["fail"], c)
            continue
        if c["shuffle"] and c["mdp"] == "gen":
            for p in o["perms"]:
                distinct_perms.add((c["n"], tuple(p)))
            k = (c["n"], c["mbs"], c["devices"])
            seen.setdefault(k, {})[c["seed"]] = o["perms"]
    for k, bysd in seen.items():
        if k[0] >= 6 and len(bysd) >= 2 and len({str(v) for v in bysd.values()}) == 1:
            ctx.violation("seed-independence n=%d mbs=%d devices=%d" % k, "different random_seed values produced identical permutation sequences", {"layout": list(k)})
    ctx.note("distinct_(n,permutation)_schedules_observed", len(distinct_perms))
    ctx.note("layouts", len(lay))
    ctx.note("seed_window", seeds)
    ctx.note("sweeps_per_run", SWEEPS)
    for c, o in allres[ctx.seed % len(allres)::max(1, len(allres) // 3)][:3]:
        ctx.sample({"case": c, "layout[d,nb,bs,pad]": o["layout"], "first_permutation": None if not o["perms"] else o["perms"][0]})
    ctx.note("rule", "layout box x {fixed, each seed of the window} x first %d sweeps on Mgen(n), ring(n) and block-packed M2s; a schedule = (partition, per-sweep permutation)" % SWEEPS)
    ctx.assume("device counts are emulated host devices; the permutation is observed through the guarded MDPAX_VERIF hook, the partition through public batch_processor attributes")


def replay(ctx, case):
    if "layout" in case and "mdp" not in case:
        return "seed-independence findings are re-derived by rerunning the check"
    from mc import workers
    import multiprocessing as mp

    res = ctx.map(work, [{"cases": [case]}], devices=case["devices"], procs=1)
    return res[0][0]["fail"]
