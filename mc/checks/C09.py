"""C09 - interrupt-and-resume at any iteration equals an uninterrupted run.

Crash points at iteration granularity x histories: for every solver and EVERY interruption point
k = 1..N-1 (N = iterations to convergence) the first k iterations run with checkpointing in one fresh
process, a second fresh process rebuilds the solver from the directory (restore() or load_checkpoint())
and continues; chains of two interruptions in the thorough tier.  Oracle: the final state equals the
single uninterrupted run without checkpointing.
"""
import itertools
import os
import shutil
from concurrent.futures import ThreadPoolExecutor

import numpy as np

from mc import seg

SOLVERS = {
    "vi": dict(gamma=0.5, epsilon=0.01),
    "pi": dict(gamma=0.9, epsilon=1e-3, max_eval_iter=4),
    "rvi": dict(epsilon=0.02),
    "pvi": dict(gamma=0.5, epsilon=0.01, period=3, clear_value_history_on_convergence=False),
    "savi": dict(gamma=0.5, epsilon=0.01, max_batch_size=2),
}
PROBLEMS = {
    "forest": {"kind": "forest", "kw": {"S": 6, "p": 0.3, "r1": 4.0, "r2": 2.0}},
    "tab": {"kind": "tab", "n": 9},
    "demoor": {"kind": "demoor", "kw": {"max_useful_life": 2, "lead_time": 1, "max_order_quantity": 3, "max_demand": 4}},
    "hendrix": {"kind": "hendrix", "kw": {"max_useful_life": 2, "max_order_quantity_a": 1, "max_order_quantity_b": 1, "demand_poisson_mean_a": 1.0, "demand_poisson_mean_b": 1.0}},
}
OVERRIDE = {("demoor", "vi"): dict(gamma=0.7, epsilon=0.01), ("hendrix", "rvi"): dict(epsilon=1e-3)}


def KW(prob, solver):
    return dict(SOLVERS[solver], **OVERRIDE.get((prob, solver), {}))


VARIANTS = {"pi-reset": dict(gamma=0.95, epsilon=1e-3, max_eval_iter=6, reset_values_for_each_policy_eval=True, convergence_test="max_diff")}

FIELDS = ("values", "gain", "value_history", "history_index", "period")


def final_of(res):
    return seg.from_plain(res["states"][-1]) if res.get("states") else None


def run_chain(job):
    """job: prob, solver, kw, parts=[k1,..] (interruptions), f, m, async, route, dir"""
    d = job["dir"]
    shutil.rmtree(d, ignore_errors=True)
    shutil.rmtree(d + "_b", ignore_errors=True)
    shutil.rmtree(d + "_c", ignore_errors=True)
    ck = {"dir": d, "f": job["f"], "m": job["m"], "async": job["async"]}
    base = {"problem": PROBLEMS[job["prob"]], "solver": job["solver"], "kw": job["kw"]}
    try:
        r = seg.run_fresh(dict(base, ckpt=ck, calls=[job["parts"][0]]))
        if r["error"]:
            return {"error": "first segment: " + r["error"]}
        src = d
        trail = [final_of(r)["iteration"]]
        nxt_dirs = [d + "_b", d + "_c"]
        for i, k in enumerate(list(job["parts"][1:]) + [0]):
            if job["route"] == "restore":
                spec = dict(base, route="restore", source=src, calls=[k])
            else:
                nd = nxt_dirs[i % 2]
                spec = dict(base, route="load", source=src, ckpt=dict(ck, dir=nd), calls=[k])
            r = seg.run_fresh(spec)
            if r["error"]:
                return {"error": "segment %d (%s): %s" % (i + 2, job["route"], r["error"])}
            restored = seg.from_plain(r["states"][0])
            if restored["iteration"] != trail[-1]:
                return {"error": None, "mismatch": "segment %d restored iteration %d, the interrupted run had reached %d" % (i + 2, restored["iteration"], trail[-1])}
            trail.append(final_of(r)["iteration"])
            if job["route"] == "load":
                src = nd
        return {"error": None, "final": r["states"][-1], "trail": trail}
    finally:
        shutil.rmtree(d, ignore_errors=True)
        shutil.rmtree(d + "_b", ignore_errors=True)
        shutil.rmtree(d + "_c", ignore_errors=True)


def run_plain(job):
    """uninterrupted run, optionally with checkpointing enabled"""
    ck = None
    if job.get("f"):
        shutil.rmtree(job["dir"], ignore_errors=True)
        ck = {"dir": job["dir"], "f": job["f"], "m": job["m"], "async": job["async"]}
    try:
        return seg.run_fresh({"problem": PROBLEMS[job["prob"]], "solver": job["solver"], "kw": job["kw"], "ckpt": ck, "calls": [0]})
    finally:
        if ck:
            shutil.rmtree(job["dir"], ignore_errors=True)


def differs(ref, got):
    """-> (failure text or None, bit_identical)"""
    bit = True
    if ref["iteration"] != got["iteration"]:
        return "final iteration %d, uninterrupted run %d" % (got["iteration"], ref["iteration"]), False
    if not np.array_equal(ref["policy"], got["policy"]):
        return "final policy differs from the uninterrupted run", False
    for k in FIELDS:
        a, b = ref.get(k), got.get(k)
        if a is None and b is None:
            continue
        if (a is None) != (b is None):
            return "field %s present in one run only" % k, False
        a_, b_ = np.asarray(a, dtype=float), np.asarray(b, dtype=float)
        if a_.shape != b_.shape:
            return "field %s has shape %s, uninterrupted run %s" % (k, b_.shape, a_.shape), False
        if not np.array_equal(a_, b_):
            bit = False
            scale = np.abs(a_).max() if a_.size else 0.0
            if np.abs(a_ - b_).max() > 1e-12 * (1 + scale):
                return "field %s differs from the uninterrupted run by %.3g" % (k, np.abs(a_ - b_).max()), False
    if str(ref.get("values_dtype")) != str(got.get("values_dtype")):
        return "values dtype %s, uninterrupted run %s" % (got.get("values_dtype"), ref.get("values_dtype")), False
    return None, bit


def run(ctx):
    q = ctx.quick
    scratch = ctx.scratch_dir()
    pool = ThreadPoolExecutor(16)
    # 1. uninterrupted references (fresh processes, no checkpointing)
    combos = [("forest", s) for s in SOLVERS] + [("tab", "vi"), ("demoor", "vi"), ("hendrix", "rvi")]
    if not q:
        combos += [("tab", "pi"), ("tab", "pvi"), ("tab", "savi"), ("demoor", "pi"), ("demoor", "savi")]
    refjobs = [{"prob": p, "solver": s, "kw": KW(p, s)} for p, s in combos]
    refjobs.append({"prob": "forest", "solver": "pvi", "kw": dict(SOLVERS["pvi"], clear_value_history_on_convergence=True), "tag": "pvi-clear"})
    # policy iteration restarting every evaluation from the problem's initial values (state that is
    # NOT in the checkpoint and must be rebuilt identically on restore)
    refjobs.append({"prob": "forest", "solver": "pi", "kw": VARIANTS["pi-reset"], "tag": "pi-reset"})
    refs = {}
    for j, r in zip(refjobs, pool.map(run_plain, refjobs)):
        if r["error"]:
            raise RuntimeError("reference run failed: %s %s" % (j, r["error"]))
        refs[(j["prob"], j.get("tag", j["solver"]))] = final_of(r)
    Ns = {k: v["iteration"] for k, v in refs.items()}
    ctx.note("iterations_to_convergence", {"%s/%s" % k: v for k, v in Ns.items()})
    # 2. chains
    jobs = []

    def add(prob, tag, parts, f, m, asy, route):
        s = "pvi" if tag == "pvi-clear" else "pi" if tag == "pi-reset" else tag
        kw = dict(SOLVERS[s], clear_value_history_on_convergence=True) if tag == "pvi-clear" else VARIANTS[tag] if tag in VARIANTS else KW(prob, s)
        jobs.append({"prob": prob, "solver": s, "tag": tag, "kw": kw, "parts": list(parts), "f": f, "m": m, "async": asy, "route": route,
                     "dir": os.path.join(scratch, "c09_%d" % len(jobs))})

    for (prob, tag), N in Ns.items():
        settings = [(1, 1, False, "restore"), (2, 2, True, "restore")] if q else [(1, 1, False, "restore"), (2, 2, True, "restore"), (3, 1, True, "restore"), (1, 2, False, "load"), (2, 1, True, "load")]
        if prob in ("tab",):
            settings = [(3, 1, True, "load")] if q else [(3, 1, True, "load"), (1, 2, False, "load")]
        if prob in ("demoor", "hendrix") and q:
            settings = [(2, 1, True, "restore")]
        if q and prob == "forest" and tag in ("rvi", "pvi", "pi-reset"):
            settings = settings + [(1, 2, False, "load")]  # load_checkpoint() route, at odd k only (si >= 1)
        if N >= 400:
            raise RuntimeError("instance %s/%s does not converge; pick another" % (prob, tag))
        for k in range(1, N + 1):  # k = N: already converged, recorded as an outcome class only
            for si, (f, m, asy, route) in enumerate(settings):
                if prob == "tab" and q and k % 2 == 0:
                    continue
                if q and (si == 1 or tag == "pvi-clear") and k % 2 == 0:
                    continue  # quick: the second setting / clear variant only at odd k
                if q and prob in ("demoor", "hendrix") and k % 3 != 1:
                    continue
                add(prob, tag, [k], f, m, asy, route)
        if not q:
            stride = 1 if N <= 9 else 4
            for k1 in range(1, N - 1, stride):
                for k2 in range(1, N - k1, stride):
                    add(prob, tag, [k1, k2], 2, 2, True, "restore" if prob != "tab" else "load")
                    if prob == "forest" and (k1 + k2) % 3 == 0:
                        add(prob, tag, [k1, k2], 1, 1, False, "load")
    ctx.log("chains", len(jobs))
    bits = 0
    for j, r in zip(jobs, pool.map(run_chain, jobs)):
        key = "%s/%s parts=%s f=%d m=%d async=%s route=%s" % (j["prob"], j["tag"], j["parts"], j["f"], j["m"], j["async"], j["route"])
        nseg = len(j["parts"]) + 1
        ctx.count(states=1, transitions=nseg, traces=1)
        N = Ns[(j["prob"], j["tag"])]
        at_conv = sum(j["parts"]) >= N
        if r.get("error"):
            ctx.violation(key, "resume chain failed: " + r["error"], j)
            continue
        if r.get("mismatch"):
            ctx.violation(key, r["mismatch"], j)
            continue
        got = seg.from_plain(r["final"])
        if at_conv:
            ctx.outcome("interrupted-at-convergence(recorded only): final iteration %+d" % (got["iteration"] - N))
            continue
        f, bit = differs(refs[(j["prob"], j["tag"])], got)
        ctx.outcome("chain-%d-interruption%s" % (len(j["parts"]), "s" if len(j["parts"]) > 1 else ""))
        if f:
            ctx.violation(key, f + " (iteration trail %s)" % r["trail"], j)
        elif bit:
            bits += 1
        if len(ctx.cov["samples"]) < 3 and len(jobs) and (len(ctx.cov["samples"]) * 37 + ctx.seed) % 5 == 0:
            ctx.sample({"chain": key, "iteration_trail": r["trail"], "N": N})
    ctx.note("chains_bit_identical_to_uninterrupted", bits)
    # 3. enabling checkpointing never changes results
    cj = []
    for (prob, tag) in [k for k in Ns if k[0] == "forest" and k[1] in SOLVERS]:
        for f, m, asy in ([(1, 1, True), (2, 2, False), (2, 1, True), (3, 2, False)] if q else itertools.product((1, 2, 3), (1, 2), (False, True))):
            cj.append({"prob": prob, "solver": tag, "kw": SOLVERS[tag], "f": f, "m": m, "async": asy, "dir": os.path.join(scratch, "c09p_%d" % len(cj))})
    for j, r in zip(cj, pool.map(run_plain, cj)):
        key = "checkpointing-on %s/%s f=%d m=%d async=%s" % (j["prob"], j["solver"], j["f"], j["m"], j["async"])
        ctx.count(states=1, transitions=1, traces=1)
        if r["error"]:
            ctx.violation(key, "run with checkpointing failed: " + r["error"], j)
            continue
        f, bit = differs(refs[(j["prob"], j["solver"])], final_of(r))
        ctx.outcome("checkpointing-on-vs-off")
        if f:
            ctx.violation(key, "enabling checkpointing changed the result: " + f, j)
    # 4. shuffled semi-async: resumed run still converges within its error bound
    from mc import probtable as PT
    from mc import workers
    from mc.ref import bellman as B

    workers.ensure()
    pr, _ = PT.make("forest", PROBLEMS["forest"]["kw"])
    S, A, E, ns, rw, pb = PT.tables(pr)
    P, R = B.PR(ns[:, :, :, 0].astype(int), rw, pb)
    g, eps = 0.5, 0.01
    vs = B.vstar(P, R, g)
    skw = dict(gamma=g, epsilon=eps, max_batch_size=2, convergence_test="max_diff", shuffle_states=True, random_seed=ctx.seed)
    sj = [{"prob": "forest", "solver": "savi", "tag": "savi-shuffle", "kw": skw, "parts": [k], "f": 1, "m": 1, "async": False, "route": "restore", "dir": os.path.join(scratch, "c09s_%d" % k)} for k in range(1, 8 if q else 12)]
    for j, r in zip(sj, pool.map(run_chain, sj)):
        key = "savi-shuffle k=%d" % j["parts"][0]
        ctx.count(states=1, transitions=2, traces=1)
        if r.get("error") or r.get("mismatch"):
            ctx.violation(key, r.get("error") or r.get("mismatch"), j)
            continue
        got = seg.from_plain(r["final"])
        ctx.outcome("savi-shuffle-resumed")
        if got["iteration"] >= 500:
            ctx.violation(key, "resumed shuffled run did not converge", j)
            continue
        pol = np.asarray(got["policy"]).reshape(-1).astype(int)
        loss = (vs - B.policy_value(P, R, g, pol)).max()
        if np.abs(got["values"] - vs).max() > eps + 1e-9 or loss > 2 * g * eps / (1 - g) + 1e-9:
            ctx.violation(key, "resumed shuffled run violates its error bound: |V-v*|=%.3g, policy loss %.3g" % (np.abs(got["values"] - vs).max(), loss), j)
    pool.shutdown()
    if not ctx.cov["samples"]:
        ctx.sample({"chain": "%s/%s parts=%s" % (jobs[0]["prob"], jobs[0]["tag"], jobs[0]["parts"])})
    ctx.note("rule", "every interruption point k=1..N (k=N recorded only) x settings (f, m, async, route) per solver/problem; thorough adds all double interruptions; each segment is a fresh interpreter")
    ctx.assume("'floating-point reproducibility of the platform' realised as 1e-12 relative; bit-identical chains are counted")
    ctx.assume("writers enable 64-bit mode before constructing the problem (the x64-first order; the other order is C20's known finding D4)")


def replay(ctx, case):
    case = dict(case, dir=os.path.join(ctx.scratch_dir(), "replay"))
    ref = final_of(run_plain({"prob": case["prob"], "solver": case["solver"], "kw": case["kw"]}))
    if "parts" not in case:
        r = run_plain(case)
        return r["error"] or differs(ref, final_of(r))[0]
    r = run_chain(case)
    if r.get("error") or r.get("mismatch"):
        return r.get("error") or r.get("mismatch")
    if sum(case["parts"]) >= ref["iteration"]:
        return None
    return differs(ref, seg.from_plain(r["final"]))[0]
