"""Shared driver for C13-C16: complete (state, action, event) enumeration per parameter tuple."""
from mc import probtable as PT


def run_oracle(ctx, oracle, extra_jobs=(), note=None):
    bx = PT.box(ctx.tier, ctx.seed)
    jobs = [{"kind": k, "kw": kw, "oracles": [oracle], "sae": n} for k, kw, n in bx] + list(extra_jobs)
    jobs.sort(key=lambda j: -j.get("sae", 0))
    ctx.log("parameter tuples", len(jobs))
    res = ctx.map(PT.prob_job, jobs)
    per_kind = {}
    stats = {}
    for j, r in zip(jobs, res):
        key = PT.pkey(j["kind"], j["kw"]) + (" slice" if j.get("sel") else "")
        if "__error__" in r:
            raise RuntimeError(r["__error__"] + "\n" + r["__tb__"])
        if r["error"]:
            ctx.violation(key, "constructing / tabulating the problem raised: " + r["error"], j)
            continue
        o = r[oracle]
        per_kind[j["kind"]] = per_kind.get(j["kind"], 0) + 1
        n = o.get("entries") or o.get("triples") or o.get("positive_triples") or 0
        ctx.count(states=1, transitions=n, traces=1)
        ctx.outcome(j["kind"])
        for k in ("min_sum", "max_sum", "worst", "max_tail", "mismatches"):
            if k in o:
                d = stats.setdefault(j["kind"], {})
                if k == "min_sum":
                    d[k] = min(d.get(k, 9.0), o[k])
                else:
                    d[k] = max(d.get(k, -9.0), o[k])
        if oracle == "dist" and o["fails"]:
            key = PT.dist_key(j["kind"], j["kw"], o) + (" slice" if j.get("sel") else "")
        for f in o["fails"][:1]:
            ctx.violation(key, "; ".join(o["fails"][:3]), j)
        if len(ctx.cov["samples"]) < 4 and per_kind[j["kind"]] == 1 + ctx.seed % 3:
            ctx.sample({"problem": j["kind"], "parameters": j["kw"], "sizes[S,A,E]": r["sizes"]})
    ctx.note("parameter_tuples_per_problem", per_kind)
    ctx.note("per_problem_extremes", stats)
    ctx.note("rule", "every parameter tuple of the DESIGN 4.4 boxes with S*A*E <= %g; every (state, action, event) of each tuple tabulated from the real problem object; %s" % (1e5 if ctx.quick else 4e6, note or ""))
    ctx.assume("parameter values between grid points and tuples whose complete table exceeds the cap are outside the box")
    return jobs


def replay_job(case):
    from mc import workers

    workers.ensure()
    r = PT.prob_job(case)
    if r["error"]:
        return r["error"]
    o = r[case["oracles"][0]]
    return "; ".join(o["fails"][:3]) or None
