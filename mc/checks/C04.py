"""C04 - relative value iteration reports the optimal average reward within epsilon.

Every member of the unichain+aperiodic alphabets x eps x initial values (x secondary axes) is a real
solve(); oracle: exact g* by policy enumeration (LP for the packed union), exact gain of the returned
policy, the optimality equation at every state, the reference RVI recurrence, and boundedness of
the relative values under 50 further sweeps.
"""
import itertools

import numpy as np

from mc import alphabets as AL
from mc import solvecase as SC
from mc.ref import bellman as B

LIMIT = 3000
EXTRA = 50


def judge(case):
    nxt, rew, prob = SC.tables_of(case)
    S = nxt.shape[0]
    eps = case["eps"]
    V0 = SC.v0_of(case, S)
    r = SC.run_case(dict(case, calls=[LIMIT] + [1] * EXTRA))
    out = {"key": SC.case_key(case), "fail": None, "outcome": None, "n": 0, "ratios": {}}
    if r["error"]:
        out["fail"] = "raised: " + r["error"]
        return out
    o = r["obs"][1]
    n = o["iteration"]
    out["n"] = n
    if n >= LIMIT:
        out["outcome"] = "hit-limit"
        return out
    h, gain, pol = o["values"], o["gain"], o["policy"]
    gstar = case["gstar"]
    scale = max(np.abs(h).max(), abs(gstar), 1.0)
    slack = B.tol(scale, 1e-9)
    out["outcome"] = "converged"
    out["ratios"]["gain"] = abs(gain - gstar) / eps
    if abs(gain - gstar) > eps + slack:
        out["fail"] = "reported gain %.9g, optimal average reward %.9g, |diff| > eps=%g (stopped at iteration %d)" % (gain, gstar, eps, n)
        return out
    res = B.backup(nxt, rew, prob, 1.0, h) - h - gain
    out["ratios"]["optimality-equation"] = float(np.abs(res).max()) / eps
    if np.abs(res).max() > eps + slack:
        out["fail"] = "|T h - h - gain| = %.6g > eps at state %d" % (np.abs(res).max(), int(np.abs(res).argmax()))
        return out
    if pol is None or (pol < 0).any():
        out["fail"] = "no valid policy"
        return out
    P, R = B.PR(nxt, rew, prob)
    ncls, _, _ = B.chain_structure(P[np.arange(S), pol])
    if ncls == 1:
        gp = B.policy_gain(P, R, pol)
        out["ratios"]["policy-gain"] = max(0.0, gstar - gp) / eps
        if gp < gstar - eps - slack:
            out["fail"] = "returned policy has average reward %.9g < g* - eps = %.9g" % (gp, gstar - eps)
            return out
    # reference recurrence (iteration, values, gain) with the borderline guard on the stop decision
    ref = B.ref_rvi(nxt, rew, prob, eps, V0, LIMIT)
    if not ref["border"]:
        if n != ref["n"]:
            out["fail"] = "stopped at iteration %d, reference recurrence stops at %d" % (n, ref["n"])
            return out
        if np.abs(h - ref["traj"][-1]).max() > B.tol(scale) or abs(gain - ref["gains"][-1]) > B.tol(scale):
            out["fail"] = "relative values / gain differ from the reference recurrence at iteration %d (dev %.3g / %.3g)" % (n, np.abs(h - ref["traj"][-1]).max(), abs(gain - ref["gains"][-1]))
            return out
    else:
        out["outcome"] = "converged(borderline stop)"
    # boundedness: EXTRA further sweeps must not let the relative values drift
    last = r["obs"][-1]
    if last["iteration"] != n + EXTRA:
        # after convergence each solve(1) performs exactly one more sweep
        out["fail"] = "after convergence %d x solve(1) advanced the iteration count by %d" % (EXTRA, last["iteration"] - n)
        return out
    drift = np.abs(last["values"] - h).max()
    out["ratios"]["drift-per-extra-sweep"] = drift / (EXTRA * eps)
    if drift > EXTRA * eps + slack or np.abs(last["values"]).max() > np.abs(h).max() + EXTRA * eps + slack:
        out["fail"] = "relative values drifted by %.6g over %d further sweeps (grow with the number of iterations)" % (drift, EXTRA)
    return out


def work(job):
    return [judge(c) for c in job["cases"]]


def packed_reset(mdps):
    """Disjoint union of Mreset members whose reset event goes to one common state (stays unichain)."""
    nxt, rew, prob, offs = AL.block_pack(mdps)
    nxt[:, :, 1] = 0
    return nxt, rew, prob


def cases_for(ctx):
    q = ctx.quick
    fam = []
    mre = [("Mreset2#%d" % i, m) for i, m in enumerate(AL.Mreset(2))]
    fam += mre[ctx.seed % 3::3] if q else mre
    skipped = 0
    cand = [("M2s#%d" % i, m) for i, m in enumerate(AL.M2s())] + [("M2d#%d" % i, m) for i, m in enumerate(AL.M2d())] + list(AL.Mchain().items())
    ua = []
    for name, m in cand:
        P, _ = B.PR(*m)
        c = B.classify_all_policies(P)
        if c["unichain"] and c["aperiodic"]:
            ua.append((name, m))
        else:
            skipped += 1
    fam += ua[ctx.seed % 5::5] if q else ua
    if not q:
        m3 = [("Mreset3#%d" % i, m) for i, m in enumerate(AL.Mreset(3, rewards=(0.0, 1.0)))]
        fam += m3[ctx.seed % 8::8]
    inits = ("zero", "seven", "ramp", "neg")
    cases = []
    for k, (name, m) in enumerate(fam):
        P, R = B.PR(*m)
        gst = B.gstar_enum(P, R)[0]
        for j, eps in enumerate((0.5, 1e-2, 1e-4)):
            for init in ((inits[(k + j) % 4],) if q else inits):
                cases.append(dict(name=name, tables=m, kind="rvi", eps=eps, init=init, gstar=gst))
    for eps in (0.5, 1e-2, 1e-4):
        for i, m in enumerate(AL.Mtie_avg(eps)):
            P, R = B.PR(*m)
            for init in ("zero", "neg"):
                cases.append(dict(name="Mtie_avg(eps=%g)#%d" % (eps, i), tables=m, kind="rvi", eps=eps, init=init, gstar=B.gstar_enum(P, R)[0]))
    # secondary axes on a slice
    sl = fam[ctx.seed % 11::11] if q else fam[ctx.seed % 5::5]
    axes = [dict(mbs=1), dict(enc="3d-offset", parr=True), dict(scale=1000.0), dict(scale=-1.0)]
    if not q:
        axes += [dict(mbs=2), dict(enc="2d"), dict(enc="offset"), dict(scale=0.001)]
    for (name, m), ax in itertools.product(sl, axes):
        sc = ax.get("scale", 1.0)
        P, R = B.PR(m[0], m[1] * sc, m[2])
        gst = B.gstar_enum(P, R)[0]
        cases.append(dict(name=name, tables=m, kind="rvi", eps=1e-2 * abs(sc), init="seven", gstar=gst, **ax))
    # packed union with a common reset target
    pk = packed_reset([m for _, m in mre[:200 if q else 666]])
    P, R = B.PR(*pk)
    gl = B.gstar_lp(P, R)
    for eps, init, mbs in itertools.product((0.5, 1e-3), ("zero", "seven"), (64, 7) if not q else (64,)):
        cases.append(dict(name="pack(Mreset2,common reset)", tables=pk, kind="rvi", eps=eps, init=init, gstar=gl, mbs=mbs))
    return cases, skipped


def run(ctx):
    cases, skipped = cases_for(ctx)
    big = [c for c in cases if c["name"].startswith("pack")]
    small = [c for c in cases if not c["name"].startswith("pack")]
    jobs = [{"cases": [c]} for c in big] + [{"cases": small[i:i + 10]} for i in range(0, len(small), 10)]
    ctx.log("cases", len(cases), "not unichain+aperiodic (skipped)", skipped)
    res = ctx.map(work, jobs)
    ratios = {}
    for j, r in zip(jobs, res):
        if isinstance(r, dict) and "__error__" in r:
            raise RuntimeError(r["__error__"] + "\n" + r["__tb__"])
        for c, o in zip(j["cases"], r):
            ctx.count(states=1, transitions=o["n"] + EXTRA, traces=1)
            ctx.outcome(o["outcome"] or "failed")
            if o["n"] == 1:
                ctx.bump("converged_at_first_sweep")
            for k, v in o["ratios"].items():
                ratios[k] = max(ratios.get(k, 0.0), v)
            if o["fail"]:
                ctx.violation(o["key"], o["fail"], SC.strip(c))
    ctx.note("max_ratio_over_eps", {k: round(v, 4) for k, v in ratios.items()})
    ctx.note("cases", len(cases))
    ctx.note("candidates_skipped_not_unichain_aperiodic", skipped)
    for i in (ctx.seed % len(small), (ctx.seed * 29 + 77) % len(small)):
        ctx.sample({k: v for k, v in small[i].items() if k != "tables"})
    ctx.note("rule", "Mreset(S=2) (unichain+aperiodic by construction), members of M2d/M2s/chain families certified unichain+aperiodic under every deterministic policy, x eps {0.5,1e-2,1e-4} x initial values; secondary axes (batch size, encoding, scale) on a slice; packed union with a common reset state")
    ctx.assume("statement's premise (unichain, aperiodic) certified by graph analysis of every deterministic policy; others are skipped and counted")


def replay(ctx, case):
    return judge(case)["fail"]
