"""C10 - restore() / load_checkpoint() reproduce the saved solver exactly and completely.

Writers are fresh processes that record their own solver_state at every save() request in a side
file.  Restorer processes enumerate, per written directory: saved step in {latest, each retained
explicit step} x every subset of the four overrides {new directory, frequency, retention, async}
(all 16 for 'latest'), plus load_checkpoint for configuration-less problems and the error paths.
"""
import hashlib
import itertools
import json
import os
import shutil
from concurrent.futures import ThreadPoolExecutor

import numpy as np

from mc import seg

SOLVER_KW = {
    "vi": dict(gamma=0.9, epsilon=1e-6, convergence_test="max_diff", max_batch_size=7),
    "pi": dict(gamma=0.9, epsilon=1e-6, max_eval_iter=3, reset_values_for_each_policy_eval=True),
    "rvi": dict(epsilon=1e-9),
    "pvi": dict(gamma=0.9, epsilon=1e-9, period=3, clear_value_history_on_convergence=False),
    "savi": dict(gamma=0.9, epsilon=1e-6, shuffle_states=True, random_seed=11, max_batch_size=5),
}
PROBLEMS = {
    "forest": [{"S": 5, "p": 0.2, "r1": 3.0, "r2": 1.5}],
    "demoor": [{"max_useful_life": 2, "lead_time": 2, "max_order_quantity": 2, "max_demand": 3, "issue_policy": "fifo", "demand_gamma_mean": 1.5}],
    "hendrix": [{"max_useful_life": 2, "max_order_quantity_a": 1, "max_order_quantity_b": 2, "substitution_probability": 0.25, "sales_price_a": 2.0}],
    "mirjalili": [{"max_useful_life": 2, "max_order_quantity": 2, "max_demand": 3, "useful_life_at_arrival_distribution_c_0": [0.5], "useful_life_at_arrival_distribution_c_1": [-0.2],
                   "weekday_demand_negbin_n": [3.5, 11.0, 7.2, 11.1, 5.9, 5.5, 2.25], "weekday_demand_negbin_delta": [5.7, 6.9, 6.5, 6.2, 5.8, 3.3, 3.5]}],
}
OVR = ("new_checkpoint_dir", "checkpoint_frequency", "max_checkpoints", "enable_async_checkpointing")
STATE_FIELDS = ("iteration", "values", "policy", "gain", "value_history", "history_index", "period", "attr_iteration", "attr_history_index", "attr_period", "attr_gain")


def tree_hash(d):
    h = hashlib.sha1()
    for root, dirs, files in sorted(os.walk(d)):
        dirs.sort()
        for f in sorted(files):
            p = os.path.join(root, f)
            h.update(os.path.relpath(p, d).encode())
            with open(p, "rb") as fh:
                h.update(fh.read())
    return h.hexdigest()


def same_state(want, got):
    """bit-for-bit comparison of recorded vs restored state -> list of differing fields"""
    bad = []
    for k in STATE_FIELDS:
        a, b = want.get(k), got.get(k)
        if a is None and b is None:
            continue
        if (a is None) != (b is None):
            bad.append("%s (%s)" % (k, "dropped: restored None" if b is None else "invented"))
            continue
        if isinstance(a, np.ndarray) or isinstance(b, np.ndarray):
            a_, b_ = np.asarray(a), np.asarray(b)
            if a_.shape != b_.shape or a_.dtype != b_.dtype or a_.tobytes() != b_.tobytes():
                bad.append("%s (shape/dtype/bytes %s %s vs %s %s)" % (k, a_.shape, a_.dtype, b_.shape, b_.dtype))
        elif a != b:
            bad.append("%s (%r vs %r)" % (k, a, b))
    return bad


def restorer(job):
    """All enumerated restores for one written directory, serialised (they share the original path)."""
    from mc import drive, workers

    workers.ensure()
    d, pristine = job["dir"], job["pristine"]
    cls = drive.solver_cls(job["solver"])
    saves = {}
    for rec in json.load(open(job["side"])):
        saves.setdefault(rec["step"], seg.from_plain(rec["state"]))
    call_of = job["call_of_step"]
    fails, n = [], 0
    orig_cfg = job["config"]
    for case in job["cases"]:
        n += 1
        shutil.rmtree(d, ignore_errors=True)
        shutil.copytree(pristine, d)
        newd = d + "_new"
        shutil.rmtree(newd, ignore_errors=True)
        before = tree_hash(d)
        ov = dict(case["ov"])
        if "new_checkpoint_dir" in ov:
            ov["new_checkpoint_dir"] = newd
        step = case["step"]
        tag = "step=%s overrides=%s" % (step or "latest", sorted(case["ov"]))
        try:
            if case.get("lite"):
                pr = seg.build_problem(job["problem"])
                s = cls(pr, verbose=0, **job["kw"], checkpoint_dir=newd, checkpoint_frequency=1, max_checkpoints=2)
                s.load_checkpoint(d, **({"step": step} if step else {}))
            else:
                s = cls.restore(d, **({"step": step} if step else {}), **ov)
            workers.quiet()
        except Exception as e:
            fails.append({"key": "raised", "what": "%s: raised %s: %s" % (tag, type(e).__name__, str(e)[:160])})
            continue
        eff = step or max(saves)
        got = seg.full_state(s)
        diff = same_state(saves[eff], got)
        for dd in diff:
            if dd.startswith("policy (dropped") and job["solver"] != "pi" and call_of.get(str(eff), 1) >= 2:
                fails.append({"key": "policy-dropped %s saved-during-solve-call>=2" % job["solver"], "what": "%s: checkpoint of step %d was written during the second solve() call and holds the policy of the first; restore returns policy=None" % (tag, eff)})
            else:
                fails.append({"key": "state", "what": "%s: restored state differs from what the writer held at step %d: %s" % (tag, eff, dd)})
        if not case.get("lite"):
            cfg = seg.config_view(s)
            exp = json.loads(json.dumps(orig_cfg))
            for k in OVR:
                if k in ov:
                    exp["checkpoint_dir" if k == "new_checkpoint_dir" else k] = ov[k]
            exp["checkpoint_dir"] = str(exp["checkpoint_dir"])
            cfg["checkpoint_dir"] = str(cfg.get("checkpoint_dir"))
            if cfg != exp:
                dk = [k for k in set(cfg) | set(exp) if cfg.get(k) != exp.get(k)]
                fails.append({"key": "config", "what": "%s: restored configuration differs from the original in %s: %s vs %s" % (tag, dk, {k: cfg.get(k) for k in dk}, {k: exp.get(k) for k in dk})})
            # overrides visible on the solver
            want_attr = {"checkpoint_frequency": ov.get("checkpoint_frequency", orig_cfg["checkpoint_frequency"]), "max_checkpoints": ov.get("max_checkpoints", orig_cfg["max_checkpoints"]),
                         "enable_async_checkpointing": ov.get("enable_async_checkpointing", orig_cfg["enable_async_checkpointing"])}
            for k, v in want_attr.items():
                if getattr(s, k, None) != v:
                    fails.append({"key": "override", "what": "%s: solver.%s = %r, expected %r" % (tag, k, getattr(s, k, None), v)})
            if want_attr["checkpoint_frequency"] > 0 and str(getattr(s, "checkpoint_dir", "")) != (newd if "new_checkpoint_dir" in ov else d):
                fails.append({"key": "override", "what": "%s: solver.checkpoint_dir = %s" % (tag, getattr(s, "checkpoint_dir", None))})
        # later saves honour the overrides; the original directory is untouched when a new one is given
        if case.get("continue"):
            try:
                s.solve(2)
                if s.checkpoint_manager is not None:
                    s.checkpoint_manager.wait_until_finished()
                target = newd if ("new_checkpoint_dir" in ov or case.get("lite")) else d
                f_eff = 1 if case.get("lite") else ov.get("checkpoint_frequency", orig_cfg["checkpoint_frequency"])
                m_eff = 2 if case.get("lite") else ov.get("max_checkpoints", orig_cfg["max_checkpoints"])
                steps = seg.step_dirs(target) or []
                if f_eff > 0:
                    if int(s.iteration) not in steps:
                        fails.append({"key": "later-saves", "what": "%s: after solve(2) the final iteration %d is not saved in %s (steps %s)" % (tag, int(s.iteration), os.path.basename(target), steps)})
                    if len(steps) > max(m_eff, 1) and target != d:
                        fails.append({"key": "later-saves", "what": "%s: %d steps retained in the new directory, max_checkpoints is %d" % (tag, len(steps), m_eff)})
                    if any(x % f_eff and x != int(s.iteration) for x in steps if x > eff) :
                        fails.append({"key": "later-saves", "what": "%s: steps %s written although frequency is %d" % (tag, steps, f_eff)})
                elif target != d and os.path.exists(target):
                    fails.append({"key": "later-saves", "what": "%s: frequency 0 but %s was created" % (tag, target)})
            except Exception as e:
                fails.append({"key": "later-saves", "what": "%s: continuing raised %s: %s" % (tag, type(e).__name__, str(e)[:160])})
        if "new_checkpoint_dir" in ov or case.get("lite"):
            if tree_hash(d) != before:
                fails.append({"key": "original-dir", "what": "%s: the original directory changed although a new directory was given" % tag})
        try:
            if getattr(s, "checkpoint_manager", None) is not None:
                s.checkpoint_manager.wait_until_finished()
                s.checkpoint_manager.close()
        except Exception:
            pass
        shutil.rmtree(newd, ignore_errors=True)
    shutil.rmtree(d, ignore_errors=True)
    return {"fails": fails, "n": n}


def error_paths(job):
    from mc import drive, workers

    workers.ensure()
    cls = drive.solver_cls("vi")
    base = job["base"]
    fails, n = [], 0
    shutil.rmtree(base, ignore_errors=True)
    os.makedirs(base)
    good = job["pristine"]

    def expect(name, fn, exc, text=None):
        nonlocal n
        n += 1
        try:
            r = fn()
        except exc as e:
            if text and text not in str(e):
                fails.append({"key": "error-path", "what": "%s: %s raised with unexpected message: %s" % (name, type(e).__name__, str(e)[:120])})
            return
        except Exception as e:
            fails.append({"key": "error-path", "what": "%s: raised %s instead of %s: %s" % (name, type(e).__name__, exc.__name__, str(e)[:120])})
            return
        fails.append({"key": "error-path", "what": "%s: returned %r instead of raising %s" % (name, type(r).__name__, exc.__name__)})

    e1 = os.path.join(base, "empty")
    os.makedirs(e1)
    expect("restore(empty directory)", lambda: cls.restore(e1), FileNotFoundError)
    e2 = os.path.join(base, "missing")
    expect("restore(non-existent directory)", lambda: cls.restore(e2), FileNotFoundError)
    e3 = os.path.join(base, "cfg_only")
    os.makedirs(e3)
    cfgtxt = open(os.path.join(good, "config.yaml")).read().replace(job["orig"], e3)
    open(os.path.join(e3, "config.yaml"), "w").write(cfgtxt)
    expect("restore(config but no completed step)", lambda: cls.restore(e3), ValueError, "No checkpoints found")
    e4 = os.path.join(base, "steps_only")
    shutil.copytree(good, e4)
    os.remove(os.path.join(e4, "config.yaml"))
    expect("restore(steps but no config)", lambda: cls.restore(e4), FileNotFoundError)
    e5 = os.path.join(base, "lite_empty")
    os.makedirs(e5)

    def lite():
        pr = seg.build_problem({"kind": "tab", "n": 5})
        s = cls(pr, gamma=0.9, verbose=0)
        s.load_checkpoint(e5)
        return s

    expect("load_checkpoint(directory without steps)", lite, ValueError, "No checkpoints found")
    shutil.rmtree(base, ignore_errors=True)
    return {"fails": fails, "n": n}


def run(ctx):
    q = ctx.quick
    scratch = ctx.scratch_dir()
    pool = ThreadPoolExecutor(16)
    writers = []
    combos = []
    solvers = list(SOLVER_KW)
    probs = list(PROBLEMS)
    for i, (sv, pb) in enumerate(itertools.product(solvers, probs)):
        hist = "two" if (i + ctx.seed) % 2 else "one"
        combos.append((sv, pb, hist))
        if not q:
            combos.append((sv, pb, "one" if hist == "two" else "two"))
    combos += [(sv, "tab", "two") for sv in (("vi", "pi") if q else solvers)]
    combos += [("vi-sp", "forest", "one")]  # jax_double_precision=False stored in the configuration
    for sv, pb, hist in combos:
        d = os.path.join(scratch, "c10_%s_%s_%s" % (sv, pb, hist))
        problem = {"kind": "tab", "n": 7} if pb == "tab" else {"kind": pb, "kw": PROBLEMS[pb][0]}
        if sv == "vi-sp":
            SOLVER_KW["vi-sp"] = dict(SOLVER_KW["vi"], jax_double_precision=False)
        spec = {"problem": problem, "solver": sv.split("-")[0], "kw": SOLVER_KW[sv], "ckpt": {"dir": d, "f": 1, "m": 3, "async": (hist == "two")},
                "calls": [3] if hist == "one" else [2, 2], "record_saves": d + ".side.json"}
        writers.append((sv, pb, hist, d, spec))
    ctx.log("writers", len(writers))
    wres = list(pool.map(lambda w: seg.run_fresh(w[4]), writers))
    jobs = []
    subsets = [c for r in range(5) for c in itertools.combinations(OVR, r)]
    values = {"new_checkpoint_dir": "NEW", "checkpoint_frequency": 2, "max_checkpoints": 1, "enable_async_checkpointing": False}
    err_src = None
    for (sv, pb, hist, d, spec), r in zip(writers, wres):
        if r["error"]:
            ctx.violation("writer %s/%s/%s" % (sv, pb, hist), "writing run failed: " + r["error"], spec)
            continue
        pristine = d + ".pristine"
        shutil.copytree(d, pristine)
        steps = seg.step_dirs(d)
        first_call_last = 3 if hist == "one" else 2
        call_of = {str(s): (1 if s <= first_call_last else 2) for s in steps}
        cases = []
        lite = pb == "tab"
        if lite:
            for st in [None] + steps:
                cases.append({"step": st, "ov": {}, "lite": True, "continue": st is None})
        else:
            for k, sub in enumerate(subsets):
                ov = {o: values[o] for o in sub}
                if "enable_async_checkpointing" in ov:
                    ov["enable_async_checkpointing"] = not spec["ckpt"]["async"]
                cases.append({"step": None, "ov": ov, "continue": True})
            for st in steps:
                for sub in (subsets if not q else [(), ("new_checkpoint_dir",), ("checkpoint_frequency", "max_checkpoints"), OVR]):
                    ov = {o: values[o] for o in sub}
                    cases.append({"step": st, "ov": ov, "continue": False})
            if "checkpoint_frequency" in OVR:
                cases.append({"step": None, "ov": {"checkpoint_frequency": 0, "new_checkpoint_dir": "NEW"}, "continue": True})
        jobs.append({"dir": d, "pristine": pristine, "side": d + ".side.json", "solver": sv.split("-")[0], "kw": SOLVER_KW[sv], "problem": spec["problem"], "config": r.get("config"), "cases": cases,
                     "call_of_step": call_of, "label": "%s/%s/%s" % (sv, pb, hist)})
        if err_src is None and not lite:
            err_src = (pristine, d)
    ctx.log("restorer jobs", len(jobs), "restores", sum(len(j["cases"]) for j in jobs))
    res = ctx.map(restorer, jobs)
    for j, r in zip(jobs, res):
        if "__error__" in r:
            raise RuntimeError(r["__error__"] + "\n" + r["__tb__"])
        ctx.count(states=1, transitions=r["n"], traces=r["n"])
        ctx.outcome(j["label"].split("/")[0], r["n"])
        for f in r["fails"]:
            if f["key"].startswith("policy-dropped"):
                ctx.violation(f["key"], f["what"], {"label": j["label"]})
            else:
                ctx.violation("%s %s" % (j["label"], f["what"].split(":")[0]), f["what"], {"label": j["label"]})
        if len(ctx.cov["samples"]) < 3:
            ctx.sample({"written": j["label"], "retained_steps": sorted(int(k) for k in j["call_of_step"]), "first_cases": j["cases"][:3]})
    if err_src:
        er = ctx.map(error_paths, [{"base": os.path.join(scratch, "c10_err"), "pristine": err_src[0], "orig": err_src[1]}])[0]
        if "__error__" in er:
            raise RuntimeError(er["__error__"] + "\n" + er["__tb__"])
        ctx.count(states=1, transitions=er["n"], traces=er["n"])
        ctx.outcome("error-paths", er["n"])
        for f in er["fails"]:
            ctx.violation("error-path " + f["what"].split(":")[0], f["what"], {})
    pool.shutdown()
    ctx.note("override_subsets", len(subsets))
    ctx.note("rule", "per written directory: all 16 override subsets at 'latest' (each followed by solve(2) to observe later saves), each retained explicit step x override subsets, frequency->0; configuration-less problems through load_checkpoint; five error paths")
    ctx.assume("writer = fresh interpreter recording its own solver_state at each save() request; restorers are separate long-lived processes; the written tree is put back to pristine before every restore")


def replay(ctx, case):
    return "C10 cases depend on a freshly written directory; rerun ./check C10 (the label in the case names the writer)"
