"""C08 - stopping rule, iteration accounting and composability of solve().

Explicit-state search over histories of solve(k), k in {1,2,3,5}, to depth 2 (quick) / 3 (thorough):
every root-to-leaf path of the history tree is executed on a fresh real solver, every node is
compared with a reference state machine implementing the documented rule, and nodes that reach
the same iteration count by different histories must hold the same state (composability).
"""
import hashlib
import itertools

import numpy as np

from mc import alphabets as AL
from mc import solvecase as SC
from mc.ref import bellman as B

KS = (1, 2, 3, 5)


class RefMachine:
    """Documented semantics of the value-iteration family as a boring state machine."""

    def __init__(self, case, layout=None):
        self.case = case
        self.kind = case["kind"]
        self.nxt, self.rew, self.prob = SC.tables_of(case)
        S = self.nxt.shape[0]
        self.V = SC.v0_of(case, S).astype(float)
        self.traj = [self.V.copy()]
        self.n = 0
        self.g = 1.0 if self.kind == "rvi" else case["gamma"]
        self.eps = case["eps"]
        if self.kind in ("rvi", "pvi"):
            self.thr = self.eps
        else:
            self.thr = B.threshold(self.eps, self.g)
        self.gain = float(self.V[-1])
        self.layout = layout
        self.border = False

    def sweep(self):
        if self.kind == "savi":
            d, nb, bs, _ = self.layout
            slots = B.slots_for(np.arange(len(self.V)), d, nb, bs)
            return B.block_gauss_seidel(self.nxt, self.rew, self.prob, self.g, self.V, slots)
        return B.backup(self.nxt, self.rew, self.prob, self.g, self.V)

    def solve(self, k):
        """-> (sweeps, stopped_by_convergence)"""
        sweeps, conv = 0, False
        for _ in range(k):
            new = self.sweep()
            if self.kind == "rvi":
                new = new - self.gain
            self.n += 1
            sweeps += 1
            old = self.V
            self.V = new
            self.traj.append(new.copy())
            if self.kind == "rvi":
                self.gain = float(new[-1])
            if self.kind == "pvi":
                p = self.case["period"]
                c = np.inf if self.n < p else B.periodic_measure(self.traj, self.n, p, self.g)
                if np.isfinite(c) and abs(c - self.thr) <= B.periodic_noise(np.abs(new).max(), self.eps, self.g, self.n):
                    self.border = True
                scale = 0.0
            else:
                test = "span" if self.kind == "rvi" else self.case.get("test", "span")
                c = B.measure(test, new, old)
                scale = max(np.abs(new).max(), np.abs(old).max(), self.thr)
            if np.isfinite(c) and abs(c - self.thr) <= B.tol(scale, B.BORDER):
                # exact family: all quantities are dyadic and exactly representable, so c == thr is
                # a real tie ("at the threshold" => must not stop), not a rounding accident
                if not (self.case.get("exact") and c == self.thr):
                    self.border = True
                else:
                    self.exact_ties = getattr(self, "exact_ties", 0) + 1
            if c < self.thr:
                conv = True
                break
        return sweeps, conv


def vhash(a):
    return hashlib.sha1(np.ascontiguousarray(np.asarray(a, dtype=np.float64)).tobytes()).hexdigest()[:16]


def judge_path(job):
    case, path = job["case"], job["path"]
    r = SC.run_case(dict(case, calls=list(path)))
    fails, nodes = [], []
    if r["error"]:
        return {"fails": ["raised: " + r["error"]], "nodes": [], "sweeps": 0, "border": False}
    ref = RefMachine(case, r.get("layout"))
    obs = r["obs"]
    # node 0: after construction
    if obs[0]["iteration"] != 0 or np.abs(obs[0]["values"] - ref.V).max() > B.tol(np.abs(ref.V).max()):
        fails.append("initial state: iteration %d, values differ from the problem's initial estimates" % obs[0]["iteration"])
    total = 0
    prev_conv = False
    for i, k in enumerate(path):
        before = ref.n
        sweeps, conv = ref.solve(k)
        total += sweeps
        o = obs[i + 1]
        tag = "history %s call %d" % (list(path[:i + 1]), i + 1)
        if ref.border:
            break  # a decision was too close to call: nothing after it is compared
        if o["iteration"] - before > k:
            fails.append("%s: performed %d sweeps, limit %d" % (tag, o["iteration"] - before, k))
        if o["iteration"] != ref.n:
            why = "reports convergence while the measure is at/above the threshold" if o["iteration"] < ref.n else "kept sweeping although the measure fell below the threshold"
            fails.append("%s: iteration %d, reference %d (%s)" % (tag, o["iteration"], ref.n, why))
            break
        if o.get("res_iteration") != o["iteration"] or not o.get("res_values_equal_state", True):
            fails.append("%s: returned SolverState disagrees with solver attributes" % tag)
        scale = max(np.abs(ref.V).max(), 1.0)
        if o["values"].shape != ref.V.shape or np.abs(o["values"] - ref.V).max() > B.tol(scale):
            fails.append("%s: values differ from %d reference backups of the initial estimates (max dev %.3g)" % (tag, ref.n, np.abs(o["values"] - ref.V).max() if o["values"].shape == ref.V.shape else -1))
            break
        if case["kind"] == "rvi" and abs(o["gain"] - ref.gain) > B.tol(scale):
            fails.append("%s: gain %.12g, reference %.12g" % (tag, o["gain"], ref.gain))
        q = B.q_values(ref.nxt, ref.rew, ref.prob, ref.g, ref.V)
        pol = o["policy"]
        if pol is None or (pol < 0).any():
            fails.append("%s: no valid policy returned" % tag)
        else:
            gap = q.max(1) - q[np.arange(len(pol)), pol]
            if gap.max() > B.tol(np.abs(q).max(), 1e-9):
                fails.append("%s: returned policy is not greedy for the returned values" % tag)
        nodes.append({"n": ref.n, "vh": vhash(o["values"]), "values": o["values"], "policy": None if pol is None else pol.tolist(),
                      "gain": o.get("gain"), "conv": conv, "hist": list(path[:i + 1]), "prov": not prev_conv,
                      "vhist": None if o.get("value_history") is None else vhash(o["value_history"]), "hidx": o.get("history_index")})
        prev_conv = prev_conv or conv
    return {"fails": fails, "nodes": nodes, "sweeps": total, "border": ref.border}


def pick(cands, case_fn, want, lo=2, hi=9):
    """Choose up to `want` MDPs whose reference stopping iteration N lies in lo..hi, spread over N."""
    byN = {}
    for name, m in cands:
        c = case_fn(name, m)
        ref = RefMachine(c, (1, len(m[0]), 1, 0))
        ref.solve(60)
        if ref.border or ref.n >= 60:
            continue
        if lo <= ref.n <= hi:
            byN.setdefault(ref.n, []).append((c, ref.n))
    out = []
    while len(out) < want and any(byN.values()):
        for N in sorted(byN):
            if byN[N] and len(out) < want:
                out.append(byN[N].pop(0))
    return out


def exact_tie_instances(cands, want):
    """gamma = 1/2 and a dyadic epsilon equal to the measure of some sweep: the measure then sits
    exactly AT the threshold once (the rule says: do not stop there) and below it later."""
    out = []
    for test in ("span", "max_diff"):
        got = 0
        for name, m in cands:
            if got >= want:
                break
            base = dict(name=name, tables=m, kind="vi", test=test, gamma=0.5, init="zero", exact=True)
            ref = RefMachine(dict(base, eps=1e-9), None)
            convs = []
            for _ in range(8):
                old = ref.V.copy()
                ref.solve(1)
                convs.append(B.measure(test, ref.V, old))
            for k in (2, 3, 4):
                if convs[k] > 0 and convs[k + 1] < convs[k] and convs[k - 1] > convs[k]:
                    c = dict(base, eps=float(convs[k]))  # threshold = eps*(1-g)/g = eps exactly
                    r2 = RefMachine(c, None)
                    r2.solve(40)
                    if not r2.border and getattr(r2, "exact_ties", 0) >= 1 and r2.n == k + 2:
                        out.append((c, r2.n))
                        got += 1
                        break
    return out


def instances(ctx):
    q = ctx.quick
    want = 6 if q else 12
    rot = ctx.seed
    m2d = [("M2d#%d" % i, m) for i, m in enumerate(AL.M2d())]
    m2s = [("M2s#%d" % i, m) for i, m in enumerate(AL.M2s())]
    mre = [("Mreset#%d" % i, m) for i, m in enumerate(AL.Mreset(2))]
    ch = AL.Mchain()

    def roll(lst):
        k = rot % len(lst)
        return lst[k:] + lst[:k]

    out = []
    for test in ("span", "max_diff"):
        out += pick(roll(m2d + m2s), lambda n, m: dict(name=n, tables=m, kind="vi", test=test, gamma=0.5, eps=0.1, init="ramp"), want)
        if True:
            out += pick(roll(m2s), lambda n, m: dict(name=n, tables=m, kind="vi", test=test, gamma=0.9, eps=2.0, init="zero", mbs=1), want // 2)
    out += pick(roll(mre), lambda n, m: dict(name=n, tables=m, kind="rvi", eps=0.05, init="ramp"), want)
    out += pick(roll(mre), lambda n, m: dict(name=n, tables=m, kind="rvi", eps=0.5, init="seven"), want // 2, lo=1)
    pv = [(n, m) for n, m in ch.items() if n.startswith("cycle")]
    out += pick(pv, lambda n, m: dict(name=n, tables=m, kind="pvi", gamma=1.0, eps=0.5, period=len(m[0]) if "+" not in n else 3, clear=False, init="ramp"), want, lo=2, hi=12)
    out += pick(roll(m2d), lambda n, m: dict(name=n, tables=m, kind="pvi", gamma=0.5, eps=0.1, period=2, clear=False, init="ramp"), want // 2 if q else want)
    out += exact_tie_instances(roll(m2d), 3 if q else 8)
    # discount factors just below one (1 - 2^-20): the documented threshold eps*(1-gamma)/gamma is
    # about 1e-6 * eps, so no stop is allowed within the explored histories
    g1 = 1.0 - 2.0 ** -20
    for kind, test in (("vi", "span"), ("vi", "max_diff"), ("savi", "max_diff")):
        for name, m in roll(m2d):
            c = dict(name=name, tables=m, kind=kind, test=test, gamma=g1, eps=10.0, init="ramp", mbs=1 if kind == "savi" else 1024)
            r_ = RefMachine(c, (1, 2, 1, 0))
            old_ = r_.V.copy()
            r_.solve(1)
            first = B.measure(test, r_.V, old_)
            _, conv_ = r_.solve(11)
            # the measure must lie between the documented threshold (~1e-5) and epsilon during the
            # explored histories: a solver that uses epsilon itself stops, the documented rule does not
            if not r_.border and not conv_ and r_.n == 12 and 1e-3 < first < 5.0:
                out.append((c, 10 ** 6))
                break
    if True:
        out += pick(roll(m2s), lambda n, m: dict(name=n, tables=m, kind="savi", test="max_diff", gamma=0.5, eps=0.1, init="ramp", mbs=1), want)
    return out


def work(job):
    return judge_path(job)


def run(ctx):
    depth = 2 if ctx.quick else 3
    inst = instances(ctx)
    paths = list(itertools.product(KS, repeat=depth))
    jobs = [{"case": c, "path": p, "N": N} for c, N in inst for p in paths]
    ctx.log("instances", len(inst), "paths each", len(paths), "jobs", len(jobs))
    res = ctx.map(work, jobs, chunksize=2)
    per_case = {}
    bit_same, merges = 0, 0
    for j, r in zip(jobs, res):
        if "__error__" in r:
            raise RuntimeError(r["__error__"] + "\n" + r["__tb__"])
        key = SC.case_key(j["case"])
        ctx.count(transitions=len(j["path"]), traces=1)
        ctx.bump("real_sweeps", r["sweeps"])
        if r["border"]:
            ctx.bump("borderline_skipped")
        for f in r["fails"]:
            ctx.violation("%s | %s" % (key, f.split(":")[0]), f, {"case": SC.strip(j["case"]), "path": list(j["path"])})
        bucket = per_case.setdefault(key, {})
        for nd in r["nodes"]:
            ctx.outcome("stopped-by-convergence" if nd["conv"] else "stopped-at-limit")
            first = bucket.get(nd["n"])
            if first is None:
                bucket[nd["n"]] = nd
                continue
            merges += 1
            same = first["vh"] == nd["vh"] and first["policy"] == nd["policy"] and first["gain"] == nd["gain"] and first["vhist"] == nd["vhist"] and first["hidx"] == nd["hidx"]
            if same:
                bit_same += 1
                continue
            dev = np.abs(first["values"] - nd["values"]).max()
            if dev > B.tol(np.abs(first["values"]).max()) or first["policy"] != nd["policy"] or first["hidx"] != nd["hidx"]:
                ctx.violation("%s | composability n=%d" % (key, nd["n"]), "histories %s and %s reach iteration %d with different state (max value dev %.3g, policies %s / %s)" % (first["hist"], nd["hist"], nd["n"], dev, first["policy"], nd["policy"]), {"case": SC.strip(j["case"]), "path": nd["hist"], "other": first["hist"]})
    states = sum(len(b) + 1 for b in per_case.values())
    ctx.count(states=states)
    ctx.note("instances", [{"case": SC.case_key(c), "reference_stop_iteration": N} for c, N in inst][:40])
    ctx.note("history_depth", depth)
    ctx.note("histories_per_instance", len(paths))
    ctx.note("state_merges_asserted", merges)
    ctx.note("state_merges_bit_identical", bit_same)
    ctx.sample({"case": SC.case_key(inst[0][0]), "history": list(paths[ctx.seed % len(paths)])})
    ctx.sample({"case": SC.case_key(inst[-1][0]), "history": list(paths[-1])})
    ctx.note("rule", "states = distinct (instance, iteration) reached; transitions = solve(k) calls executed on real solvers; all %d^%d histories per instance" % (len(KS), depth))
    ctx.assume("policy iteration is not in the value-iteration family the statement quantifies over; periodic VI is explored with history kept (continuing after the history was cleared is outside the statement)")


def replay(ctx, case):
    r = judge_path({"case": case["case"], "path": case["path"]})
    return "; ".join(r["fails"]) or None
