"""C03 - results are independent of batch size, device count and padding.

Every (n_states, max_batch_size, devices) of the layout box x {zero vector is / is not a state} x
solver is driven through the same call history [1,1,1,1,60] as the baseline layout
(devices=1, max_batch_size=n_states); all observations are compared differentially.
"""
import itertools

import numpy as np

from mc import alphabets as AL
from mc import solvecase as SC
from mc.ref import bellman as B

CALLS = [1, 1, 1, 1, 60]
G, EPS = 0.8, 0.1
KINDS = ["vi", "pi", "rvi", "pvi", "savi", "savi-shuffle"]


def case_for(kind, n, mbs, d, enc):
    m = AL.Mgen(n)
    c = dict(name="Mgen(%d)" % n, tables=m, gamma=G, eps=EPS, mbs=mbs, devices=d, enc=enc, init="ramp", calls=CALLS)
    if kind == "vi":
        c.update(kind="vi", test="max_diff")
    elif kind == "pi":
        c.update(kind="pi", test="max_diff", max_eval=400)
    elif kind == "rvi":
        c.update(kind="rvi")
    elif kind == "pvi":
        c.update(kind="pvi", period=2, clear=False)
    elif kind == "savi":
        c.update(kind="savi", test="max_diff")
    else:
        c.update(kind="savi", test="max_diff", shuffle=True, seed=7)
    c["ckind"] = kind
    return c


def run_one(c):
    r = SC.run_case(c)
    if r["error"]:
        return {"error": r["error"], "layout": r.get("layout")}
    obs = []
    for o in r["obs"]:
        obs.append({k: (v.tolist() if isinstance(v, np.ndarray) else v) for k, v in o.items()})
    return {"error": None, "obs": obs, "layout": r["layout"]}


def work(job):
    return [run_one(c) for c in job["cases"]]


def policy_value(c, pol):
    nxt, rew, prob = SC.tables_of(c)
    P, R = B.PR(nxt, rew, prob)
    if c["kind"] == "rvi":
        S = len(pol)
        ncls, _, _ = B.chain_structure(P[np.arange(S), pol])
        return None if ncls != 1 else np.array([B.policy_gain(P, R, pol)])
    return B.policy_value(P, R, c["gamma"], pol)


def compare(c, base, got):
    """differential oracle -> failure text or None"""
    n = SC.tables_of(c)[0].shape[0]
    for k, (ob, og) in enumerate(zip(base["obs"], got["obs"])):
        tag = "after call %d of %s" % (k, CALLS) if k else "after construction"
        vb, vg = np.array(ob["values"]), np.array(og["values"])
        if vg.shape != (n,):
            return "%s: values have shape %s, n_states is %d" % (tag, vg.shape, n)
        if not np.isfinite(vg).all():
            return "%s: non-finite values" % tag
        if c["ckind"].startswith("savi") and k > 0:
            continue  # semi-async sweeps legitimately depend on the partition (compared in C06)
        if og["iteration"] != ob["iteration"]:
            return "%s: iteration %d, baseline layout %d" % (tag, og["iteration"], ob["iteration"])
        scale = max(np.abs(vb).max(), 1.0)
        if np.abs(vb - vg).max() > B.tol(scale):
            return "%s: values differ from the baseline layout by %.3g" % (tag, np.abs(vb - vg).max())
        if "gain" in ob and abs(ob["gain"] - og["gain"]) > B.tol(scale):
            return "%s: gain %.12g vs baseline %.12g" % (tag, og["gain"], ob["gain"])
        if ob.get("value_history") is not None:
            hb, hg = np.array(ob["value_history"]), np.array(og["value_history"])
            if hb.shape != hg.shape or np.abs(hb - hg).max() > B.tol(scale) or ob["history_index"] != og["history_index"]:
                return "%s: value history / index differ from the baseline layout" % tag
        if og["policy"] is not None:
            pg = np.array(og["policy"])
            if pg.shape != (n,) or (pg < 0).any():
                return "%s: policy has shape %s / rows outside the action space" % (tag, pg.shape)
            pb = np.array(ob["policy"])
            if not np.array_equal(pb, pg):
                vb_, vg_ = policy_value(c, pb), policy_value(c, pg)
                if vb_ is not None and vg_ is not None and np.abs(vb_ - vg_).max() > B.tol(np.abs(vb_).max(), 1e-9):
                    return "%s: returned policy's value differs from the baseline layout's by %.3g" % (tag, np.abs(vb_ - vg_).max())
    if c["ckind"].startswith("savi"):
        # converged solution must satisfy its error bound for every partition
        og = got["obs"][-1]
        total = sum(CALLS)
        if og["iteration"] < total:
            nxt, rew, prob = SC.tables_of(c)
            P, R = B.PR(nxt, rew, prob)
            vs = B.vstar(P, R, G)
            V, pol = np.array(og["values"]), np.array(og["policy"])
            if np.abs(V - vs).max() > EPS + 1e-9:
                return "semi-async converged with |V-v*| = %.4g > eps" % np.abs(V - vs).max()
            loss = (vs - B.policy_value(P, R, G, pol)).max()
            if loss > 2 * G * EPS / (1 - G) + 1e-9:
                return "semi-async converged with policy loss %.4g above its bound" % loss
    return None


def run(ctx):
    q = ctx.quick
    if q:
        ns, devs = [1, 2, 3, 5, 7, 8], [1, 2, 3]
    else:
        ns, devs = list(range(1, 14)) + [64, 65, 127, 128, 129, 200], [1, 2, 3, 4, 8]
    by_dev = {d: [] for d in devs}
    base_cases = []
    for n in ns:
        bs = list(range(1, n + 2)) if n <= 13 else [1, 63, 64, 65, n]
        for enc in ("plain", "offset"):
            for kind in KINDS:
                base_cases.append(case_for(kind, n, n, 1, enc))
                for b, d in itertools.product(bs, devs):
                    if enc == "offset" and q and b not in (1, n, n + 1):
                        continue
                    if (b, d) == (n, 1):
                        continue
                    by_dev[d].append(case_for(kind, n, b, d, enc))
    results = {}
    jobs = [{"cases": base_cases[i:i + 4]} for i in range(0, len(base_cases), 4)]
    ctx.log("baseline cases", len(base_cases))
    res = ctx.map(work, jobs, devices=1)
    base = {}
    for j, r in zip(jobs, res):
        if isinstance(r, dict) and "__error__" in r:
            raise RuntimeError(r["__error__"] + "\n" + r["__tb__"])
        for c, o in zip(j["cases"], r):
            base[(c["ckind"], c["name"], c["enc"])] = o
            ctx.count(states=1, transitions=len(CALLS), traces=1)
            if o["error"]:
                ctx.violation("baseline %s %s enc=%s" % (c["ckind"], c["name"], c["enc"]), "raised: " + o["error"], SC.strip(c))
    nlay = set()
    for d in devs:
        cases = by_dev[d]
        jobs = [{"cases": cases[i:i + 4]} for i in range(0, len(cases), 4)]
        ctx.log("devices", d, "cases", len(cases))
        res = ctx.map(work, jobs, devices=d)
        ctx.close_pool(d)
        for j, r in zip(jobs, res):
            if isinstance(r, dict) and "__error__" in r:
                raise RuntimeError(r["__error__"] + "\n" + r["__tb__"])
            for c, o in zip(j["cases"], r):
                ctx.count(states=1, transitions=len(CALLS), traces=1)
                key = "%s %s mbs=%d devices=%d enc=%s" % (c["ckind"], c["name"], c["mbs"], d, c["enc"])
                if o["error"]:
                    ctx.violation(key, "raised: " + o["error"], SC.strip(c))
                    ctx.outcome("raised")
                    continue
                nlay.add((c["name"], tuple(o["layout"])))
                ctx.outcome("padding" if o["layout"][3] else "no-padding")
                if o["layout"][0] != d:
                    ctx.violation(key, "solver reports %d devices, %d available" % (o["layout"][0], d), SC.strip(c))
                b0 = base[(c["ckind"], c["name"], c["enc"])]
                if b0["error"]:
                    continue
                f = compare(c, b0, o)
                if f:
                    ctx.violation(key, f, SC.strip(c))
                if len(ctx.cov["samples"]) < 3 and c["mbs"] > 1:
                    ctx.sample({"solver": c["ckind"], "n": c["name"], "max_batch_size": c["mbs"], "devices": d, "enc": c["enc"], "layout[d,nb,bs,pad]": o["layout"], "iterations": [x["iteration"] for x in o["obs"]]})
    ctx.note("distinct_(problem,layout)_pairs", len(nlay))
    ctx.note("call_history", CALLS)
    ctx.note("rule", "layout box (n x max_batch_size x devices) x {zero vector is a state, is not} x 6 solver variants on Mgen(n); differential against devices=1, max_batch_size=n running the same call history")
    ctx.assume("devices are emulated host devices (XLA_FLAGS=--xla_force_host_platform_device_count), one worker pool per count")


def replay(ctx, case):
    c = dict(case)
    c["tables"] = tuple(np.array(t) for t in c["tables"])
    n = c["tables"][0].shape[0]
    b = ctx.map(work, [{"cases": [dict(c, mbs=n, devices=1)]}], devices=1, procs=1)[0][0]
    g = ctx.map(work, [{"cases": [c]}], devices=c["devices"], procs=1)[0][0] if c["devices"] != 1 else ctx.map(work, [{"cases": [c]}], devices=1, procs=1)[0][0]
    if g["error"]:
        return "raised: " + g["error"]
    if b["error"]:
        return None
    return compare(c, b, g)
