"""C07 - periodic value iteration: plain VI iterates with the documented period-span stop.

Every (MDP, period, gamma, eps, clear) of the enumerated box is a real solve(); compared with a
reference that runs plain value iteration and applies the documented measure.
"""
import itertools

import numpy as np

from mc import alphabets as AL
from mc import solvecase as SC
from mc.ref import bellman as B

LIMIT = 240


def judge(case):
    nxt, rew, prob = SC.tables_of(case)
    S = nxt.shape[0]
    g, eps, p = case["gamma"], case["eps"], case["period"]
    V0 = SC.v0_of(case, S)
    ref = B.ref_periodic(nxt, rew, prob, g, eps, p, V0, LIMIT)
    traj = ref["traj"]
    # some cases are solved in two calls (the first stops at its limit, well before the reference
    # stopping iteration): the policy returned by EACH call must be greedy for that call's values
    pre = case.get("pre") if (case.get("pre") and ref["n"] > case["pre"] + 1 and not ref["border"]) else None
    r = SC.run_case(dict(case, calls=[pre, LIMIT - pre] if pre else [LIMIT]))
    out = {"key": SC.case_key(case), "fail": None, "outcome": None, "n": 0, "ratio": None, "wraps": 0}
    if r["error"]:
        if pre and case.get("clear", True) is True and "NoneType" in r["error"]:
            r = SC.run_case(dict(case, calls=[LIMIT]))
            pre = None
        if r["error"]:
            out["fail"] = "raised: " + r["error"]
            return out
    if pre:
        for k_, o_ in ((1, r["obs"][1]), (2, r["obs"][2])):
            q_ = B.q_values(nxt, rew, prob, g, o_["values"])
            pol_ = o_["policy"]
            if pol_ is None or (pol_ < 0).any() or (q_.max(1) - q_[np.arange(S), pol_]).max() > B.tol(np.abs(q_).max(), 1e-9):
                out["fail"] = "call %d of solve(%d); solve(%d): returned policy is not greedy for the returned values (iteration %d)" % (k_, pre, LIMIT - pre, o_["iteration"])
                return out
    o = r["obs"][-1]
    n = o["iteration"]
    out["n"] = n
    if n > LIMIT or n < 1:
        out["fail"] = "iteration %d outside 1..%d" % (n, LIMIT)
        return out
    if n < p and n < LIMIT:
        out["fail"] = "reported convergence at iteration %d before a full period %d had elapsed" % (n, p)
        return out
    # values are plain VI iterates whatever the stopping decision
    if n <= ref["n"]:
        Vn = traj[n]
    else:
        Vn = traj[-1]
        for _ in range(n - ref["n"]):
            Vn = B.backup(nxt, rew, prob, g, Vn)
    scale = max(np.abs(Vn).max(), 1.0)
    if o["values"].shape != Vn.shape or np.abs(o["values"] - Vn).max() > B.tol(scale):
        out["fail"] = "returned values are not the plain value-iteration iterate V_%d (max dev %.3g)" % (n, np.abs(o["values"] - Vn).max())
        return out
    q = B.q_values(nxt, rew, prob, g, Vn)
    pol = o["policy"]
    if pol is None or (pol < 0).any() or (q.max(1) - q[np.arange(S), pol]).max() > B.tol(np.abs(q).max(), 1e-9):
        out["fail"] = "returned policy is not greedy for the returned values"
        return out
    if ref["border"]:
        out["outcome"] = "borderline"
        return out
    if n != ref["n"]:
        why = "stopped while the documented measure was at/above epsilon" if n < ref["n"] else "did not stop at the first iteration with measure below epsilon"
        out["fail"] = "stopped at iteration %d, reference %d (%s)" % (n, ref["n"], why)
        return out
    converged = ref["converged"]
    out["outcome"] = "converged" if converged else "hit-limit"
    out["wraps"] = n // (p + 1)
    # circular buffer
    H, idx = o.get("value_history"), o.get("history_index")
    if converged and case.get("clear", True):
        if H is not None:
            out["fail"] = "value history kept although clear_value_history_on_convergence is on"
            return out
    else:
        if H is None or H.shape != (p + 1, S):
            out["fail"] = "value history missing / wrong shape %s" % (None if H is None else H.shape,)
            return out
        for j in range(min(p, n) + 1):
            if np.abs(H[(idx - j) % (p + 1)] - traj[n - j]).max() > B.tol(scale):
                out["fail"] = "history slot (index-%d) does not hold V_%d" % (j, n - j)
                return out
    if o.get("period") != p:
        out["fail"] = "reported period %r" % o.get("period")
        return out
    if converged and g == 1.0 and case.get("gstar") is not None:
        D = (traj[n] - traj[n - p]) / p
        dev = np.abs(D - case["gstar"]).max()
        out["ratio"] = dev / (eps / p)
        if dev > eps / p + B.tol(scale, 1e-9):
            out["fail"] = "(V_n - V_(n-p))/p deviates from g* by %.6g > eps/p = %.6g" % (dev, eps / p)
    return out


def work(job):
    return [judge(c) for c in job["cases"]]


def cases_for(ctx):
    q = ctx.quick
    m1 = [("M1#%d" % i, m) for i, m in enumerate(AL.M1())]
    m2d = [("M2d#%d" % i, m) for i, m in enumerate(AL.M2d())]
    ch = list(AL.Mchain().items())
    if q:
        fam = m1[ctx.seed % 3::3] + m2d[ctx.seed % 8::8] + ch
    else:
        fam = m1 + m2d + ch + [("M2s#%d" % i, m) for i, m in enumerate(AL.M2s())][ctx.seed % 4::4]
    cases = []
    for name, m in fam:
        P, R = B.PR(*m)
        S, A, _ = P.shape
        cls = B.classify_all_policies(P)
        gst = B.gstar_enum(P, R)[0] if cls["unichain"] else None
        is_chain = not name.startswith("M")
        periods = (1, 2, 3, 4, 7) if (not q or is_chain) else (1, 2, 3)
        for k, (p, g, eps) in enumerate(itertools.product(periods, (0.5, 0.9, 1.0), (0.5, 1e-3))):
            if g == 1.0 and p < 2:
                continue
            for clear in ((True, False) if not q else ((k % 2 == 0),)):
                cases.append(dict(name=name, tables=m, kind="pvi", gamma=g, eps=eps, period=p, clear=clear,
                                  init="ramp" if (k % 3 == 0) else "zero", gstar=gst, mbs=1024 if k % 4 else 1, pre=(2 if k % 5 == 0 else None)))
    return cases


def run(ctx):
    cases = cases_for(ctx)
    jobs = [{"cases": cases[i:i + 12]} for i in range(0, len(cases), 12)]
    ctx.log("cases", len(cases))
    res = ctx.map(work, jobs)
    maxratio, wraps3 = 0.0, 0
    for j, r in zip(jobs, res):
        if isinstance(r, dict) and "__error__" in r:
            raise RuntimeError(r["__error__"] + "\n" + r["__tb__"])
        for c, o in zip(j["cases"], r):
            ctx.count(states=1, transitions=o["n"], traces=1)
            ctx.outcome(o["outcome"] or "failed")
            if o["ratio"] is not None:
                maxratio = max(maxratio, o["ratio"])
            if o["wraps"] >= 3:
                wraps3 += 1
            if o["fail"]:
                ctx.violation(o["key"], o["fail"], SC.strip(c))
    ctx.note("max_ratio_gain_error_over_eps_per_period", round(maxratio, 4))
    ctx.note("runs_wrapping_buffer_3_or_more_times", wraps3)
    ctx.note("cases", len(cases))
    for i in (ctx.seed % len(cases), (ctx.seed * 17 + 333) % len(cases)):
        ctx.sample({k: v for k, v in cases[i].items() if k != "tables"})
    ctx.note("rule", "M1 + M2d (+M2s slice) + hand-listed chain families x period x gamma {1/2, 0.9, 1} x eps {0.5, 1e-3} x history clearing; non-trivial = run compared at its stopping iteration")
    ctx.assume("gain bound asserted only for gamma=1 on MDPs the reference classifier proves unichain under every deterministic policy")


def replay(ctx, case):
    return judge(case)["fail"]
