"""C17 - explicit matrices describe the same MDP as the functional description.

build_transition_and_reward_matrices on: block packs and slices of M2d / M2s under several encodings
and both probability return types; every shipped parameter tuple with few states; and the error
path for every (deficit, tolerance, position) of a small grid.
"""
import itertools
import re

import numpy as np

from mc import alphabets as AL
from mc import probtable as PT
from mc.ref import bellman as B

DELTAS = (1e-7, 1e-5, 1e-3, 0.1, -0.1)
TOLS = (0.0, 1e-6, 1e-4, 1e-2, 0.5)


def ref_PR(nxt, rew, prob):
    P, R = B.PR(nxt, rew, prob)          # P[s,a,s'], R[s,a]
    return np.transpose(P, (1, 0, 2)), R  # builder layout P[a,s,s']


def compare(Pi, Ri, Pr, Rr, tag):
    if Pi.shape != Pr.shape or Ri.shape != Rr.shape:
        return "%s: shapes P %s R %s, expected %s %s" % (tag, Pi.shape, Ri.shape, Pr.shape, Rr.shape)
    rs = Pr.sum(-1, keepdims=True)
    Pn = Pr / np.where(rs > 0, rs, 1.0)
    if np.abs(Pi - Pn).max() > 1e-9:
        a, s, t = np.unravel_index(np.abs(Pi - Pn).argmax(), Pi.shape)
        return "%s: P[a=%d,s=%d,s'=%d] = %.9g, total probability of the events leading there = %.9g" % (tag, a, s, t, Pi[a, s, t], Pn[a, s, t])
    if np.abs(Ri - Rr).max() > 1e-9 * (1 + np.abs(Rr).max()):
        s, a = np.unravel_index(np.abs(Ri - Rr).argmax(), Ri.shape)
        return "%s: R[s=%d,a=%d] = %.9g, expected immediate reward %.9g" % (tag, s, a, Ri[s, a], Rr[s, a])
    if np.abs(Pi.sum(-1) - 1).max() > 1e-9:
        return "%s: a transition row sums to %.9g" % (tag, Pi.sum(-1).flat[np.abs(Pi.sum(-1) - 1).argmax()])
    return None


def job_tab(job):
    from mc import drive, workers
    from mc.harness import tabular as T

    workers.ensure()
    if job["src"] == "pack":
        mdps = {"M2d": AL.M2d, "M2s": AL.M2s}[job["alphabet"]]()
        nxt, rew, prob, _ = AL.block_pack(mdps[job["lo"]:job["hi"]])
    elif job["src"] == "gen":
        nxt, rew, prob = AL.Mgen(job["n"], A=job.get("A", 3), E=job.get("E", 3))
    else:
        nxt, rew, prob = {"M2d": AL.M2d, "M2s": AL.M2s}[job["alphabet"]]()[job["idx"]]
    S, A, E = nxt.shape
    enc = T.enc_for(job["enc"], S, A, E)
    pr = T.make_problem(nxt, rew, prob, enc=enc, prob_as_array=job["parr"])
    fails = []
    try:
        Pi, Ri = pr.build_transition_and_reward_matrices(**({} if job.get("tol") is None else {"normalization_tolerance": job["tol"]}))
    except Exception as e:
        return {"fails": ["builder raised %s: %s" % (type(e).__name__, str(e)[:160])], "entries": 0, "solves": 0}
    Pi, Ri = np.asarray(Pi), np.asarray(Ri)
    Pr, Rr = ref_PR(nxt, rew, prob)
    f = compare(Pi, Ri, Pr, Rr, "tables")
    if f:
        fails.append(f)
    solves = 0
    if job.get("solve") and not fails:
        g = 0.9
        vs_mat = B.vstar(np.transpose(Pi, (1, 0, 2)), Ri, g)
        s = drive.make_solver("vi", pr, gamma=g, epsilon=1e-10, convergence_test="max_diff", max_batch_size=64)
        res = s.solve(5000)
        solves = 1
        dv = np.abs(np.asarray(res.values) - vs_mat).max()
        if dv > 1e-8 * (1 + np.abs(vs_mat).max()):
            fails.append("optimal values from the matrices differ from functional value iteration by %.3g" % dv)
        try:
            import mdptoolbox.mdp as tb

            pi = tb.PolicyIteration(Pi, Ri, g, eval_type=0)
            pi.run()
            d2 = np.abs(np.array(pi.V) - vs_mat).max()
            solves += 1
            if d2 > 1e-8 * (1 + np.abs(vs_mat).max()):
                fails.append("pymdptoolbox policy iteration on the matrices disagrees with the exact solve by %.3g" % d2)
        except ImportError:
            pass
    return {"fails": fails, "entries": int(Pi.size + Ri.size), "solves": solves}


def job_err(job):
    """Row (s,a) sums to 1 - delta, a second row to 1 - delta/3; tolerance tau."""
    from mc import workers
    from mc.harness import tabular as T

    workers.ensure()
    nxt, rew, prob = AL.Mgen(4, A=2, E=2)
    prob = np.full(prob.shape, 0.5)
    out = {"fails": [], "entries": 0, "solves": 0, "cases": 0}
    for (s0, a0), delta, tau in job["cases"]:
        p = prob.copy()
        p[s0, a0, 1] -= delta
        s1, a1 = (s0 + 1) % 4, 1 - a0
        p[s1, a1, 0] -= delta / 4  # a second, smaller offender (dyadic fraction keeps sums exact)
        pr = T.make_problem(nxt, rew, p)
        out["cases"] += 1
        tag = "row(s=%d,a=%d) sums to 1-%g, tolerance %g" % (s0, a0, delta, tau)
        dev = abs(delta)
        try:
            Pi, Ri = pr.build_transition_and_reward_matrices(normalization_tolerance=tau)
            raised = None
        except ValueError as e:
            raised = str(e)
        except Exception as e:
            out["fails"].append("%s: raised %s instead of ValueError" % (tag, type(e).__name__))
            continue
        if abs(dev - tau) <= 1e-12 * (1 + tau):
            continue  # exactly at the tolerance: either outcome is within rounding
        if dev > tau:
            if raised is None:
                out["fails"].append("%s: deviation exceeds the tolerance but renormalised output was returned" % tag)
                continue
            m = re.search(r"state (\d+), action (\d+)", raised)
            if not m:
                out["fails"].append("%s: ValueError does not name a state-action pair: %s" % (tag, raised[:100]))
                continue
            s_, a_ = int(m.group(1)), int(m.group(2))
            true_dev = abs(p[s_, a_].sum() - 1.0)
            if not true_dev > tau:
                out["fails"].append("%s: ValueError names state %d action %d whose deviation %.3g does not exceed the tolerance" % (tag, s_, a_, true_dev))
            elif (s_, a_) != (s0, a0):
                out["fails"].append("%s: ValueError names state %d action %d, the worst offender is state %d action %d" % (tag, s_, a_, s0, a0))
        else:
            if raised is not None:
                out["fails"].append("%s: deviation within the tolerance but ValueError raised: %s" % (tag, raised[:100]))
                continue
            Pi = np.asarray(Pi)
            out["entries"] += Pi.size
            Pr, Rr = ref_PR(nxt, rew, p)
            f = compare(Pi, np.asarray(Ri), Pr, Rr, tag)
            if f:
                out["fails"].append(f)
    return out


def job_shipped(job):
    from mc import workers

    workers.ensure()
    kind, kw = job["kind"], job["kw"]
    pr, cfg = PT.make(kind, kw)
    Tt = PT.tables(pr)
    S, A, E, ns, rw, pb = Tt
    rows = {tuple(r): i for i, r in enumerate(S.tolist())}
    import jax
    import jax.numpy as jnp

    idx = np.array(jax.jit(jax.vmap(jax.vmap(jax.vmap(pr.state_to_index))))(jnp.array(ns)))
    nS, nA, nE = len(S), len(A), len(E)
    Pr = np.zeros((nA, nS, nS))
    for e in range(nE):
        np.add.at(Pr, (np.tile(np.arange(nA), nS), np.repeat(np.arange(nS), nA), idx[:, :, e].reshape(-1)), pb[:, :, e].reshape(-1))
    Rr = (pb * rw).sum(-1)
    sums = Pr.sum(-1)
    dev = np.abs(sums - 1).max()
    out = {"fails": [], "entries": int(Pr.size), "solves": 0, "expect_raise": bool(dev > 1e-4)}
    try:
        Pi, Ri = pr.build_transition_and_reward_matrices()
        raised = None
    except ValueError as e:
        raised = str(e)
    if dev > 1.5e-4:
        if raised is None:
            out["fails"].append("row sums deviate from 1 by %.3g > 1e-4 but no ValueError was raised" % dev)
        else:
            m = re.search(r"state (\d+), action (\d+)", raised)
            if not m or abs(sums[int(m.group(2)), int(m.group(1))] - 1) <= 1e-4:
                out["fails"].append("ValueError does not name an offending state-action pair: %s" % raised[:120])
    elif dev < 0.5e-4:
        if raised is not None:
            out["fails"].append("row sums within 1e-4 of one but ValueError raised: %s" % raised[:120])
        else:
            f = compare(np.asarray(Pi), np.asarray(Ri), Pr, Rr, "shipped")
            if f:
                out["fails"].append(f)
    return out


def work(job):
    return {"tab": job_tab, "err": job_err, "shipped": job_shipped}[job["fn"]](job)


def run(ctx):
    q = ctx.quick
    jobs = []
    encs = ["plain", "3d-offset"] if q else ["plain", "offset", "2d", "3d-offset"]
    for al, n in (("M2d", 351), ("M2s", 592)):
        step = 120 if q else 60
        for lo in range(0, n, step):
            for en, parr in itertools.product(encs, (False, True)):
                jobs.append({"fn": "tab", "src": "pack", "alphabet": al, "lo": lo, "hi": min(n, lo + step), "enc": en, "parr": parr, "solve": lo == 0 and en == "plain"})
        idxs = range(ctx.seed % 40, n, 40) if q else range(ctx.seed % 8, n, 8)
        for i in idxs:
            jobs.append({"fn": "tab", "src": "one", "alphabet": al, "idx": i, "enc": encs[i % len(encs)], "parr": bool(i % 2), "solve": True, "tol": (0.0 if i % 3 == 0 else None)})
    for n in ((3, 6) if q else (2, 3, 5, 6, 9)):
        for en in encs:
            jobs.append({"fn": "tab", "src": "gen", "n": n, "enc": en, "parr": False, "solve": True})
        jobs.append({"fn": "tab", "src": "gen", "n": n, "A": 2, "E": 1, "enc": "plain", "parr": True, "solve": True})
    pos = [(0, 0), (3, 1)] if q else [(s, a) for s in range(4) for a in range(2)]
    ec = [(p, d, t) for p in pos for d in DELTAS for t in TOLS]
    jobs += [{"fn": "err", "cases": ec[i:i + 10]} for i in range(0, len(ec), 10)]
    for kind, kw, n in PT.box(ctx.tier, ctx.seed):
        S = PT.sae(kind, PT._full(kind, kw))[0]
        if S <= (60 if q else 300) and n <= 2e5:
            jobs.append({"fn": "shipped", "kind": kind, "kw": kw})
    ctx.log("jobs", len(jobs))
    res = ctx.map(work, jobs)
    kinds = {}
    for j, r in zip(jobs, res):
        if "__error__" in r:
            ctx.violation("job %s" % {k: v for k, v in j.items() if k not in ("cases",)}, "raised: " + r["__error__"], j)
            continue
        kinds[j["fn"]] = kinds.get(j["fn"], 0) + 1
        ctx.count(states=r.get("cases", 1), transitions=max(1, r["entries"]), traces=1 + r["solves"])
        ctx.outcome(j["fn"] + ("-expected-to-raise" if r.get("expect_raise") else ""))
        for f in r["fails"][:3]:
            key = "%s %s" % (j["fn"], PT.pkey(j["kind"], j["kw"]) if j["fn"] == "shipped" else {k: v for k, v in j.items() if k not in ("fn", "cases")} if j["fn"] == "tab" else f.split(":")[0])
            ctx.violation(key, f, j)
        if len(ctx.cov["samples"]) < 4 and kinds[j["fn"]] == 1:
            ctx.sample({k: v for k, v in j.items() if k != "cases"} if j["fn"] != "err" else {"fn": "err", "first_case": j["cases"][0]})
    ctx.note("jobs_by_kind", kinds)
    ctx.note("error_path_grid", {"deltas": list(DELTAS), "tolerances": list(TOLS), "positions": len(pos)})
    ctx.note("rule", "builder output compared entry by entry with numpy accumulation (after the documented renormalisation); exact solve of the returned matrices vs functional VI to 1e-10 (and pymdptoolbox when importable); error path grid delta x tolerance x position with a second smaller offender")
    ctx.assume("tolerance 0 is used only with dyadic tables whose rows sum to exactly 1")


def replay(ctx, case):
    from mc import workers

    workers.ensure()
    r = work(case)
    return "; ".join(r["fails"]) or None
