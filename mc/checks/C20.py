"""C20 - configuration contract: valid parameters work by every route, invalid ones are rejected.

Enumerated: 5 solver classes x 3 construction routes x parameter values on and around every documented
boundary (gamma x epsilon fully crossed; the other parameters one at a time), all four shipped
problems; every documented rejection; both construction orders in fresh interpreters.
"""
import itertools
import json
import os
import shutil
import subprocess
import sys
from concurrent.futures import ThreadPoolExecutor

import numpy as np

PROBLEMS = {
    "forest": {"kind": "forest", "kw": {"S": 4, "p": 0.1}},
    "demoor": {"kind": "demoor", "kw": {"max_useful_life": 2, "lead_time": 1, "max_order_quantity": 2, "max_demand": 3}},
    "hendrix": {"kind": "hendrix", "kw": {"max_useful_life": 1, "max_order_quantity_a": 2, "max_order_quantity_b": 2, "demand_poisson_mean_a": 1.0, "demand_poisson_mean_b": 1.0}},
    "mirjalili": {"kind": "mirjalili", "kw": {"max_useful_life": 2, "max_order_quantity": 2, "max_demand": 3, "useful_life_at_arrival_distribution_c_0": [1.0], "useful_life_at_arrival_distribution_c_1": [0.0]}},
}
GAMMAS = (0.0, 1e-3, 0.5, 0.999, 1.0)
EPSS = (1e-12, 1e-3, 1.0, 9.0, 10.0, 99.0, 100.0, 1e3, 1e6)
SOLVERS = ("vi", "pi", "rvi", "pvi", "savi")
ROOTDIR = os.path.dirname(os.path.dirname(os.path.dirname(os.path.abspath(__file__))))


def problem_cfg(p):
    from mdpax import problems as MP

    pcls = {"forest": MP.Forest, "demoor": MP.DeMoorSingleProductPerishable, "mirjalili": MP.MirjaliliPlateletPerishable, "hendrix": MP.HendrixTwoProductPerishable}[p["kind"]]
    return pcls, {k: (tuple(v) if isinstance(v, list) else v) for k, v in p["kw"].items()}


def construct(route, solver, p, kw, scratch):
    from hydra.utils import instantiate
    from omegaconf import OmegaConf

    from mc import drive, workers

    cls = drive.solver_cls(solver)
    pcls, pkw = problem_cfg(p)
    kw = dict(kw)
    kw.setdefault("verbose", 0)
    if route == "instance":
        s = cls(pcls(**pkw), **kw)
    elif route == "config":
        s = cls(config=cls.Config(problem=pcls.Config(**pkw), **kw))
    else:  # reload the saved configuration file
        d = os.path.join(scratch, "c20_%d" % os.getpid())
        shutil.rmtree(d, ignore_errors=True)
        kw2 = dict(kw, checkpoint_dir=d, checkpoint_frequency=1)
        s0 = cls(pcls(**pkw), **kw2)
        cfg = OmegaConf.load(os.path.join(d, "config.yaml"))
        if s0.checkpoint_manager is not None:
            s0.checkpoint_manager.close()
        cfg.checkpoint_frequency = kw.get("checkpoint_frequency", 0)
        cfg.checkpoint_dir = kw.get("checkpoint_dir", None)
        s = instantiate(cfg)
        shutil.rmtree(d, ignore_errors=True)
    workers.quiet()
    return s


def valid_job(job):
    from mc import workers

    workers.ensure()
    out = []
    for c in job["cases"]:
        res = {}
        for route in ("instance", "config", "reload"):
            d = None
            kw = dict(c["kw"])
            if kw.get("checkpoint_frequency"):
                d = os.path.join(job["scratch"], "c20ck_%d_%s" % (os.getpid(), route))
                shutil.rmtree(d, ignore_errors=True)
                kw["checkpoint_dir"] = d
            try:
                s = construct(route, c["solver"], PROBLEMS[c["problem"]], kw, job["scratch"])
                r = s.solve(3)
                if getattr(s, "checkpoint_manager", None) is not None:
                    s.checkpoint_manager.wait_until_finished()
                    s.checkpoint_manager.close()
                v = np.asarray(r.values)
                res[route] = {"error": None, "iteration": int(r.info.iteration), "values": v.astype(np.float64).tolist(), "dtype": str(v.dtype),
                              "policy": None if r.policy is None else np.asarray(r.policy).tolist(), "finite": bool(np.isfinite(v).all())}
            except Exception as e:
                res[route] = {"error": "%s: %s" % (type(e).__name__, str(e)[:200])}
            finally:
                if d:
                    shutil.rmtree(d, ignore_errors=True)
        out.append(res)
    return out


def reject_job(job):
    from mc import drive, workers

    workers.ensure()
    from mdpax import problems as MP

    out = []
    F = MP.Forest()
    for c in job["cases"]:
        try:
            if c["what"] == "solver":
                cls = drive.solver_cls(c["solver"])
                base = dict(verbose=0)
                if c["solver"] == "pvi":
                    base["period"] = 2
                base.update(c["kw"])
                if c.get("route") == "config":
                    cls.Config(**base)
                else:
                    cls(F, **base)
            else:
                pcls = {"forest": MP.Forest, "demoor": MP.DeMoorSingleProductPerishable, "mirjalili": MP.MirjaliliPlateletPerishable, "hendrix": MP.HendrixTwoProductPerishable}[c["problem"]]
                kw = {k: (tuple(v) if isinstance(v, list) else v) for k, v in c["kw"].items()}
                if c.get("route") == "config":
                    pcls.Config(**kw)
                else:
                    pcls(**kw)
            out.append("accepted")
        except (ValueError, TypeError) as e:
            out.append("rejected:" + type(e).__name__)
        except Exception as e:
            out.append("other:%s: %s" % (type(e).__name__, str(e)[:100]))
    return out


def fresh(spec):
    env = dict(os.environ)
    env.update(JAX_PLATFORMS="cpu", PYTHONWARNINGS="ignore")
    p = subprocess.run([sys.executable, "-m", "mc.c20_fresh", json.dumps(spec)], capture_output=True, text=True, cwd=ROOTDIR, env=env, timeout=600)
    for line in p.stdout.splitlines():
        if line.startswith("RESULT"):
            return json.loads(line[6:])
    return {"error": "no result: " + p.stderr[-300:]}


def base_kw(solver, g=0.9, eps=1e-3):
    kw = dict(epsilon=eps)
    if solver != "rvi":
        kw["gamma"] = g
    if solver == "pvi":
        kw["period"] = 2
    return kw


def valid_cases(ctx):
    cases = []
    for sv in SOLVERS:
        gs = (1.0,) if sv == "rvi" else GAMMAS
        for g, eps in itertools.product(gs, EPSS):
            cases.append(dict(solver=sv, problem="forest", kw=base_kw(sv, g, eps)))
        one = [dict(max_batch_size=1), dict(max_batch_size=3), dict(max_batch_size=10 ** 6), dict(checkpoint_frequency=1, max_checkpoints=1), dict(checkpoint_frequency=2, max_checkpoints=3, enable_async_checkpointing=False),
               dict(checkpoint_frequency=1, max_checkpoints=0), dict(jax_double_precision=True)] + [dict(verbose=v) for v in range(0, 5)]
        if sv in ("vi", "pi", "savi"):
            one += [dict(convergence_test="span"), dict(convergence_test="max_diff")]
        if sv == "pvi":
            one += [dict(period=1), dict(period=5), dict(period=2, gamma=1.0), dict(clear_value_history_on_convergence=False)]
        if sv == "pi":
            one += [dict(max_eval_iter=1), dict(max_eval_iter=1000), dict(reset_values_for_each_policy_eval=True)]
        if sv == "savi":
            one += [dict(shuffle_states=True, random_seed=0), dict(shuffle_states=True, random_seed=2 ** 31 - 1)]
        for extra in one:
            kw = base_kw(sv)
            kw.update(extra)
            cases.append(dict(solver=sv, problem="forest", kw=kw))
        for pb in ("demoor", "hendrix", "mirjalili"):
            cases.append(dict(solver=sv, problem=pb, kw=base_kw(sv)))
    if ctx.quick:
        # quick: verbosity levels and the non-forest problems for every solver, gamma x eps cross for all
        pass
    return cases


def reject_cases():
    cases = []
    for sv in SOLVERS:
        bads = [("gamma", -0.1), ("gamma", 1.1), ("epsilon", 0), ("epsilon", -1.0), ("max_batch_size", 0), ("max_batch_size", -1), ("checkpoint_frequency", -1), ("max_checkpoints", -1), ("verbose", -1), ("verbose", 5)]
        if sv == "rvi":
            bads += [("gamma", 0.9), ("gamma", 0.0)]
        if sv in ("vi", "pi", "savi"):
            bads += [("convergence_test", "foo")]
        if sv == "pvi":
            bads += [("period", 0), ("period", -1)]
        if sv == "pi":
            bads += [("max_eval_iter", 0), ("max_eval_iter", -1)]
        for k, v in bads:
            for route in ("instance", "config"):
                cases.append(dict(what="solver", solver=sv, kw={k: v}, route=route))
    cases.append(dict(what="solver", solver="pvi", kw=dict(gamma=1.0, period=1), route="instance"))
    P = [("forest", dict(S=0)), ("forest", dict(S=-1)), ("forest", dict(p=-0.1)), ("forest", dict(p=1.1)),
         ("demoor", dict(max_demand=0)), ("demoor", dict(demand_gamma_mean=0)), ("demoor", dict(demand_gamma_cov=0)), ("demoor", dict(max_useful_life=0)), ("demoor", dict(lead_time=0)), ("demoor", dict(max_order_quantity=0)), ("demoor", dict(issue_policy="x")),
         ("hendrix", dict(max_useful_life=0)), ("hendrix", dict(demand_poisson_mean_a=0)), ("hendrix", dict(demand_poisson_mean_b=-1)), ("hendrix", dict(substitution_probability=1.1)), ("hendrix", dict(substitution_probability=-0.1)), ("hendrix", dict(max_order_quantity_a=0)), ("hendrix", dict(max_order_quantity_b=0)),
         ("mirjalili", dict(max_demand=0)), ("mirjalili", dict(weekday_demand_negbin_n=[1.0] * 6)), ("mirjalili", dict(weekday_demand_negbin_n=[1.0] * 6 + [-1.0])), ("mirjalili", dict(weekday_demand_negbin_delta=[1.0] * 8)), ("mirjalili", dict(weekday_demand_negbin_delta=[0.0] * 7)),
         ("mirjalili", dict(max_useful_life=0, useful_life_at_arrival_distribution_c_0=[], useful_life_at_arrival_distribution_c_1=[])), ("mirjalili", dict(useful_life_at_arrival_distribution_c_0=[1.0])), ("mirjalili", dict(useful_life_at_arrival_distribution_c_1=[1.0])), ("mirjalili", dict(max_order_quantity=0))]
    for pb, kw in P:
        for route in ("instance", "config"):
            cases.append(dict(what="problem", problem=pb, kw=kw, route=route))
    return cases


def run(ctx):
    scratch = ctx.scratch_dir()
    vc = valid_cases(ctx)
    jobs = [{"cases": vc[i:i + 6], "scratch": scratch} for i in range(0, len(vc), 6)]
    ctx.log("valid parameter sets", len(vc), "x 3 routes")
    res = ctx.map(valid_job, jobs)
    for j, rs in zip(jobs, res):
        if isinstance(rs, dict) and "__error__" in rs:
            raise RuntimeError(rs["__error__"] + "\n" + rs["__tb__"])
        for c, r in zip(j["cases"], rs):
            key = "%s %s %s" % (c["solver"], c["problem"], {k: c["kw"][k] for k in sorted(c["kw"])})
            ctx.count(states=1, transitions=3, traces=3)
            errs = {rt: r[rt]["error"] for rt in r if r[rt]["error"]}
            for rt, e in errs.items():
                ctx.violation("valid-set route=%s %s" % (rt, key), "a parameter set accepted by the validators failed by the %s route: %s" % (rt, e), c)
            ok = [rt for rt in r if not r[rt]["error"]]
            ctx.outcome("valid:%d-routes-ok" % len(ok))
            for rt in ok:
                if c["kw"].get("jax_double_precision", True) and r[rt]["dtype"] != "float64":
                    ctx.violation("dtype route=%s %s" % (rt, key), "values returned as %s with double precision requested" % r[rt]["dtype"], c)
                if r[rt]["iteration"] < 1 or r[rt]["iteration"] > 3:
                    ctx.violation("iteration route=%s %s" % (rt, key), "solve(3) reports iteration %d" % r[rt]["iteration"], c)
            for a, b in itertools.combinations(ok, 2):
                va, vb = np.array(r[a]["values"]), np.array(r[b]["values"])
                same = r[a]["iteration"] == r[b]["iteration"] and va.shape == vb.shape and np.allclose(va, vb, rtol=1e-12, atol=1e-12, equal_nan=True) and r[a]["policy"] == r[b]["policy"]
                if not same:
                    ctx.violation("routes-differ %s/%s %s" % (a, b, key), "routes %s and %s behave differently: iteration %d/%d, max value dev %s" % (a, b, r[a]["iteration"], r[b]["iteration"], np.abs(va - vb).max() if va.shape == vb.shape else "shape"), c)
            if len(ctx.cov["samples"]) < 2 and c["kw"].get("epsilon") == 100.0:
                ctx.sample({"case": c, "iterations_by_route": {rt: r[rt].get("iteration") for rt in r}})
    # rejections
    rc = reject_cases()
    rres = ctx.map(reject_job, [{"cases": rc[i:i + 40]} for i in range(0, len(rc), 40)])
    flat = [x for chunk in rres for x in (chunk if isinstance(chunk, list) else [])]
    for c, o in zip(rc, flat):
        ctx.count(states=1, transitions=1, traces=1)
        ctx.outcome("invalid:" + o.split(":")[0])
        if not o.startswith("rejected"):
            ctx.violation("not-rejected %s" % {k: v for k, v in c.items()}, "invalid value was %s instead of being rejected with ValueError/TypeError" % o, c)
    # precision in fresh interpreters, both construction orders + configuration-only
    specs = []
    probs = ("forest", "demoor") if ctx.quick else ("forest", "demoor", "hendrix", "mirjalili")
    for sv, pb in itertools.product(SOLVERS, probs):
        kw = base_kw(sv, 0.9, 1e-9)
        for order in ("x64_first", "problem_first", "config_only"):
            specs.append(dict(order=order, solver=sv, problem=PROBLEMS[pb], kw=kw, sweeps=3, pb=pb))
    pool = ThreadPoolExecutor(16)
    fres = list(pool.map(fresh, specs))
    pool.shutdown()
    by = {}
    for s_, r in zip(specs, fres):
        by[(s_["solver"], s_["pb"], s_["order"])] = r
        ctx.count(states=1, transitions=1, traces=1)
    for sv, pb in itertools.product(SOLVERS, probs):
        ref = by[(sv, pb, "x64_first")]
        if ref["error"]:
            ctx.violation("fresh x64_first %s %s" % (sv, pb), ref["error"], {})
            continue
        for order in ("problem_first", "config_only"):
            r = by[(sv, pb, order)]
            cname = {"vi": "ValueIteration", "pi": "PolicyIteration", "rvi": "RelativeValueIteration", "pvi": "PeriodicValueIteration", "savi": "SemiAsyncValueIteration"}[sv]
            if order == "problem_first":
                key = "float32-computation %s %s problem-constructed-before-x64-was-enabled" % (cname, pb)
            else:
                key = "precision %s %s order=%s" % (cname, pb, order)
            if r["error"]:
                ctx.violation("fresh %s %s %s" % (order, sv, pb), r["error"], {})
                continue
            dev = float(np.abs(np.array(r["values"]) - np.array(ref["values"])).max())
            scale = float(np.abs(np.array(ref["values"])).max())
            ctx.outcome("fresh:%s:%s" % (order, "float64-exact" if (r["dtype"] == "float64" and dev <= 1e-12 * (1 + scale)) else "degraded"))
            if r["dtype"] != "float64":
                ctx.violation(key, "values returned as %s in a fresh process (order %s)" % (r["dtype"], order), {"order": order, "solver": sv, "problem": pb})
            elif dev > 1e-12 * (1 + scale):
                ctx.violation(key, "values after 3 sweeps differ from the 64-bit-first run by %.3g: the computation was not carried out in float64 (order %s)" % (dev, order), {"order": order, "solver": sv, "problem": pb})
    ctx.note("gamma_grid", list(GAMMAS))
    ctx.note("epsilon_grid", list(EPSS))
    ctx.note("rejection_cases", len(rc))
    ctx.note("rule", "valid: gamma x epsilon fully crossed per solver, other parameters one at a time, three routes each, solve(3); invalid: one value on each side of every documented domain, by instance and by config; precision: 5 solvers x problems x 3 construction orders in fresh interpreters compared at a fixed sweep count")
    ctx.assume("precision is compared after exactly 3 sweeps (epsilon too small to stop), so stopping-rule noise cannot be confused with precision")


def replay(ctx, case):
    if "order" in case:
        return "fresh-process precision cases: rerun ./check C20"
    if "what" in case:
        r = ctx.map(reject_job, [{"cases": [case]}], procs=1)[0][0]
        return None if r.startswith("rejected") else r
    r = ctx.map(valid_job, [{"cases": [case], "scratch": ctx.scratch_dir()}], procs=1)[0][0]
    errs = {rt: r[rt]["error"] for rt in r if r[rt]["error"]}
    return str(errs) if errs else None
