"""Scalar reference models of the four shipped problems, written from their docstrings / papers.
Pure Python + numpy + scipy; no jax, no numpyro."""
import math

import numpy as np
import scipy.stats as st


def issue(stock, demand, oldest_first=True):
    """stock: list, index 0 newest .. last oldest.  -> (remaining stock, units issued)"""
    stock = list(stock)
    order = range(len(stock) - 1, -1, -1) if oldest_first else range(len(stock))
    rem = demand
    for i in order:
        take = min(stock[i], rem)
        stock[i] -= take
        rem -= take
    return stock, demand - rem


# ------------------------------------------------------------------ Forest (pymdptoolbox definition)
def forest_ref(cfg, s, a, e):
    S_, age = cfg["S"], s[0]
    if a[0] == 1:  # cut
        r = cfg["r2"] if age == S_ - 1 else (0.0 if age == 0 else 1.0)
        return [0], r
    r = cfg["r1"] if age == S_ - 1 else 0.0
    return ([0] if e[0] == 1 else [min(age + 1, S_ - 1)]), r


def forest_prob(cfg, s, a, e):
    if a[0] == 0:
        return cfg["p"] if e[0] == 1 else 1 - cfg["p"]
    return 0.0 if e[0] == 1 else 1.0


def forest_tables(cfg):
    """(nxt, rew, prob) tables of the Forest problem (events: 0 = no fire, 1 = fire)."""
    S, p, r1, r2 = cfg["S"], cfg["p"], cfg["r1"], cfg["r2"]
    nxt = np.zeros((S, 2, 2), dtype=np.int32)
    rew = np.zeros((S, 2, 2))
    prob = np.zeros((S, 2, 2))
    for s in range(S):
        nxt[s, 0] = [min(s + 1, S - 1), 0]
        prob[s, 0] = [1 - p, p]
        rew[s, 0] = r1 if s == S - 1 else 0.0
        nxt[s, 1] = [0, 0]
        prob[s, 1] = [1, 0]
        rew[s, 1] = r2 if s == S - 1 else (0.0 if s == 0 else 1.0)
    return nxt, rew, prob


def forest_sizes(cfg):
    return cfg["S"], 2, 2


# ------------------------------------------------------------------ De Moor
def demoor_ref(cfg, s, a, e):
    m, L = cfg["max_useful_life"], cfg["lead_time"]
    transit = list(s[:L - 1])
    stock = list(s[L - 1:])
    order, d = a[0], e[0]
    after, issued = issue(stock, d, cfg["issue_policy"] == "fifo")
    shortage = d - issued
    expired = after[-1]
    holding = sum(after[:-1])
    pipeline = [order] + transit
    arriving = pipeline[-1]
    nstock = [arriving] + after[:-1]
    ntransit = pipeline[:L - 1]
    conserved = sum(stock) == issued + expired + sum(after[:-1])
    cost = cfg["variable_order_cost"] * order + cfg["shortage_cost"] * shortage + cfg["wastage_cost"] * expired + cfg["holding_cost"] * holding
    return ntransit + nstock, -cost, conserved


def demoor_probs(cfg):
    D = cfg["max_demand"]
    mean, cv = cfg["demand_gamma_mean"], cfg["demand_gamma_cov"]
    dist = st.gamma(a=1 / cv ** 2, scale=mean * cv ** 2)
    p = [dist.cdf(0.5)] + [dist.cdf(d + 0.5) - dist.cdf(d - 0.5) for d in range(1, D + 1)]
    p[-1] += 1 - sum(p)
    return np.array(p)


def demoor_sizes(cfg):
    q, m, L, D = cfg["max_order_quantity"], cfg["max_useful_life"], cfg["lead_time"], cfg["max_demand"]
    return (q + 1) ** (m + L - 1), q + 1, D + 1


# ------------------------------------------------------------------ Mirjalili
def mirj_ref(cfg, s, a, e):
    q = cfg["max_order_quantity"]
    wd = s[0]
    stock = [0] + list(s[1:])
    d = e[0]
    rec = list(e[1:])
    order = a[0]
    opening = [min(q, x + y) for x, y in zip(stock, rec)]
    after, issued = issue(opening, d, True)
    shortage = d - issued
    expired = after[-1]
    holding = sum(after)
    conserved = sum(opening) == issued + expired + sum(after[:-1])
    cost = (cfg["variable_order_cost"] * order + cfg["fixed_order_cost"] * (order > 0) + cfg["shortage_cost"] * shortage
            + cfg["wastage_cost"] * expired + cfg["holding_cost"] * holding)
    return [(wd + 1) % 7] + after[:-1], -cost, conserved


def mirj_prob(cfg, s, a, e):
    D = cfg["max_demand"]
    wd, order, d = s[0], a[0], e[0]
    rec = list(e[1:])
    n = cfg["weekday_demand_negbin_n"][wd]
    delta = cfg["weekday_demand_negbin_delta"][wd]
    p = n / (n + delta)
    pd_ = st.nbinom.pmf(d, n, p) if d < D else 1 - st.nbinom.cdf(D - 1, n, p)
    if sum(rec) != order:
        return 0.0
    logits = np.array([0.0] + [c0 + c1 * order for c0, c1 in zip(cfg["useful_life_at_arrival_distribution_c_0"], cfg["useful_life_at_arrival_distribution_c_1"])])
    pr = np.exp(logits - logits.max())
    pr /= pr.sum()
    pr = pr[::-1]  # stock vector: index 0 = newest = useful life m
    return float(pd_ * st.multinomial.pmf(rec, order, pr))


def mirj_sizes(cfg):
    q, m, D = cfg["max_order_quantity"], cfg["max_useful_life"], cfg["max_demand"]
    return 7 * (q + 1) ** (m - 1), q + 1, (D + 1) * math.comb(q + m, m)


# ------------------------------------------------------------------ Hendrix
def hend_ref(cfg, s, a, e):
    m = cfg["max_useful_life"]
    sa, sb = list(s[:m]), list(s[m:])
    ia, ib = e
    aa, isa = issue(sa, ia, True)
    ab, isb = issue(sb, ib, True)
    conserved = (sum(sa) == isa + aa[-1] + sum(aa[:-1])) and (sum(sb) == isb + ab[-1] + sum(ab[:-1]))
    rew = cfg["sales_price_a"] * ia + cfg["sales_price_b"] * ib - cfg["variable_order_cost_a"] * a[0] - cfg["variable_order_cost_b"] * a[1]
    return [a[0]] + aa[:-1] + [a[1]] + ab[:-1], rew, conserved


def hend_defined(cfg, s, a, e):
    m = cfg["max_useful_life"]
    return e[0] <= sum(s[:m]) and e[1] <= sum(s[m:])


def hend_exact_tail(cfg, xa, xb, T, N=None):
    """Exact joint distribution of (issued_a, issued_b) given total stocks xa, xb, by brute-force
    summation over (d_a, d_b, u), and per event the mass of the outcomes the model truncates:
    {d_b >= T} or {d_a + u > T} (only arise when B stocks out)."""
    la, lb, ps = cfg["demand_poisson_mean_a"], cfg["demand_poisson_mean_b"], cfg["substitution_probability"]
    if N is None:
        N = int(max(60, 4 * max(la, lb) + 40))
    ex, tail = {}, {}
    pa = st.poisson.pmf(np.arange(N), la)
    pbb = st.poisson.pmf(np.arange(N), lb)
    for db in range(N):
        if pbb[db] < 1e-22:
            continue
        ib = min(db, xb)
        exs = db - ib
        pu = st.binom.pmf(np.arange(exs + 1), exs, ps)
        for u in range(exs + 1):
            if pu[u] == 0:
                continue
            for da in range(N):
                w = pa[da] * pbb[db] * pu[u]
                if w < 1e-24:
                    if da > la:
                        break
                    continue
                key = (min(da + u, xa), ib)
                ex[key] = ex.get(key, 0.0) + w
                if db >= xb and (db >= T or da + u > T):
                    tail[key] = tail.get(key, 0.0) + w
    return ex, tail


def hend_sizes(cfg):
    m, qa, qb = cfg["max_useful_life"], cfg["max_order_quantity_a"], cfg["max_order_quantity_b"]
    return (qa + 1) ** m * (qb + 1) ** m, (qa + 1) * (qb + 1), (m * qa + 1) * (m * qb + 1)


SIZES = {"forest": forest_sizes, "demoor": demoor_sizes, "mirjalili": mirj_sizes, "hendrix": hend_sizes}
