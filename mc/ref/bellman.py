"""Boring numpy reference models: Bellman operators, exact evaluation, reference solver loops.

Tables: nxt[S,A,E] int, rew[S,A,E] float, prob[S,A,E] float.  No jax in this file.
"""
import itertools
from math import gcd

import numpy as np

EQ = 1e-10   # equality tolerance factor: EQ * (1 + scale)
BORDER = 1e-9  # borderline guard factor


def tol(scale, f=EQ):
    return f * (1.0 + float(scale))


def q_values(nxt, rew, prob, g, V):
    return ((rew + g * V[nxt]) * prob).sum(-1)


def backup(nxt, rew, prob, g, V):
    return q_values(nxt, rew, prob, g, V).max(-1)


def backup_pi(nxt, rew, prob, g, V, pol):
    q = q_values(nxt, rew, prob, g, V)
    return q[np.arange(len(V)), pol]


def span(x):
    return float(np.max(x) - np.min(x))


def PR(nxt, rew, prob):
    S, A, E = nxt.shape
    P = np.zeros((S, A, S))
    for e in range(E):
        np.add.at(P, (np.repeat(np.arange(S), A), np.tile(np.arange(A), S), nxt[:, :, e].reshape(-1)), prob[:, :, e].reshape(-1))
    R = (rew * prob).sum(-1)
    return P, R


def policy_value(P, R, g, pol):
    S = P.shape[0]
    Pp = P[np.arange(S), pol]
    Rp = R[np.arange(S), pol]
    return np.linalg.solve(np.eye(S) - g * Pp, Rp)


def vstar(P, R, g):
    """Exact optimal discounted values: policy enumeration when tiny, Howard PI with linear solves otherwise."""
    S, A, _ = P.shape
    if A ** S <= 4096:
        vs = [policy_value(P, R, g, np.array(pol)) for pol in itertools.product(range(A), repeat=S)]
        return np.max(vs, axis=0)
    pol = np.zeros(S, dtype=int)
    for _ in range(10000):
        v = policy_value(P, R, g, pol)
        q = R + g * P @ v
        new = q.argmax(1)
        # keep current action on ties to guarantee termination
        keep = q[np.arange(S), pol] >= q.max(1) - 1e-13 * (1 + np.abs(q).max())
        new = np.where(keep, pol, new)
        if (new == pol).all():
            return v
        pol = new
    raise RuntimeError("reference PI did not terminate")


# ----------------------------------------------------------------- average reward
def _scc(adj):
    """Strongly connected components of a boolean adjacency matrix (Tarjan, iterative enough for tiny n)."""
    from scipy.sparse import csr_matrix
    from scipy.sparse.csgraph import connected_components

    n, lab = connected_components(csr_matrix(adj.astype(np.int8)), directed=True, connection="strong")
    return n, lab


def chain_structure(Pp):
    """-> (n_recurrent_classes, period_of_each_recurrent_class list, recurrent_mask)"""
    S = Pp.shape[0]
    adj = Pp > 0
    n, lab = _scc(adj)
    classes = []
    for c in range(n):
        members = np.where(lab == c)[0]
        closed = not adj[np.ix_(members, np.setdiff1d(np.arange(S), members))].any()
        if closed:
            classes.append(members)
    periods = []
    rec = np.zeros(S, dtype=bool)
    for members in classes:
        rec[members] = True
        # period via BFS levels
        start = members[0]
        level = {int(start): 0}
        order = [int(start)]
        gg = 0
        for u in order:
            for v in np.where(adj[u])[0]:
                v = int(v)
                if v not in level:
                    level[v] = level[u] + 1
                    order.append(v)
                else:
                    gg = gcd(gg, abs(level[u] + 1 - level[v]))
        periods.append(gg if gg > 0 else 1)
    return len(classes), periods, rec


def policy_gain(P, R, pol):
    """Gain of a unichain policy (stationary distribution by linear solve)."""
    S = P.shape[0]
    Pp = P[np.arange(S), pol]
    Rp = R[np.arange(S), pol]
    A = np.vstack([Pp.T - np.eye(S), np.ones((1, S))])
    b = np.zeros(S + 1)
    b[-1] = 1
    mu, *_ = np.linalg.lstsq(A, b, rcond=None)
    return float(mu @ Rp)


def classify_all_policies(P):
    """-> dict(unichain=bool, aperiodic=bool) quantifying over every deterministic policy (tiny S only)."""
    S, A, _ = P.shape
    uni, aper = True, True
    for pol in itertools.product(range(A), repeat=S):
        n, periods, _ = chain_structure(P[np.arange(S), np.array(pol)])
        if n != 1:
            uni = False
            aper = False
        elif periods[0] != 1:
            aper = False
    return {"unichain": uni, "aperiodic": aper}


def gstar_enum(P, R):
    """Optimal gain by enumeration (requires every policy unichain)."""
    S, A, _ = P.shape
    best, bestpol = -np.inf, None
    for pol in itertools.product(range(A), repeat=S):
        g = policy_gain(P, R, np.array(pol))
        if g > best:
            best, bestpol = g, pol
    return best, bestpol


def gstar_lp(P, R):
    """Optimal gain of a unichain MDP by the dual LP over state-action frequencies."""
    from scipy.optimize import linprog

    S, A, _ = P.shape
    n = S * A
    c = -R.reshape(-1)
    Aeq = np.zeros((S + 1, n))
    for s in range(S):
        for a in range(A):
            j = s * A + a
            Aeq[s, j] += 1
            Aeq[:S, j] -= P[s, a]
    Aeq[S, :] = 1
    beq = np.zeros(S + 1)
    beq[S] = 1
    r = linprog(c, A_eq=Aeq, b_eq=beq, bounds=(0, None), method="highs")
    assert r.status == 0, r.message
    return float(-r.fun)


# ----------------------------------------------------------------- reference solver loops
def threshold(eps, g):
    return eps if g == 1 else eps * (1 - g) / g


def measure(test, new, old):
    d = new - old
    return span(d) if test == "span" else float(np.max(np.abs(d)))


def ref_vi(nxt, rew, prob, g, eps, test, V0, max_iter, thr=None):
    """Documented stopping rule.  -> dict(traj=[V0..Vn], n=stop iteration, converged, border, convs)"""
    thr = threshold(eps, g) if thr is None else thr
    V = np.array(V0, dtype=float)
    traj, convs, border = [V.copy()], [], False
    conv_flag = False
    for n in range(1, max_iter + 1):
        new = backup(nxt, rew, prob, g, V)
        c = measure(test, new, V)
        convs.append(c)
        scale = max(np.abs(new).max(), np.abs(V).max(), abs(thr) if np.isfinite(thr) else 0)
        if abs(c - thr) <= tol(scale, BORDER):
            border = True
        V = new
        traj.append(V.copy())
        if c < thr:
            conv_flag = True
            break
    return {"traj": traj, "n": len(traj) - 1, "converged": conv_flag, "border": border, "convs": convs}


def ref_rvi(nxt, rew, prob, eps, V0, max_iter, gain0=None):
    """h_{n+1} = T h_n - gain_n ; gain_{n+1} = h_{n+1}[last]; span test against eps (gamma = 1)."""
    h = np.array(V0, dtype=float)
    gain = float(h[-1]) if gain0 is None else float(gain0)
    traj, gains, convs, border, conv_flag = [h.copy()], [gain], [], False, False
    for n in range(1, max_iter + 1):
        new = backup(nxt, rew, prob, 1.0, h) - gain
        c = span(new - h)
        convs.append(c)
        scale = max(np.abs(new).max(), np.abs(h).max(), eps)
        if abs(c - eps) <= tol(scale, BORDER):
            border = True
        gain = float(new[-1])
        h = new
        traj.append(h.copy())
        gains.append(gain)
        if c < eps:
            conv_flag = True
            break
    return {"traj": traj, "gains": gains, "n": len(traj) - 1, "converged": conv_flag, "border": border, "convs": convs}


def periodic_measure(traj, n, p, g):
    """Documented measure at iteration n >= p given plain-VI iterates traj[0..n]."""
    if g == 1:
        return span(traj[n] - traj[n - p])
    d = np.zeros_like(traj[0])
    for j in range(n - p + 1, n + 1):
        d = d + (traj[j] - traj[j - 1]) / (g ** (j - 1))
    return span(d)


def periodic_noise(vmax, eps, g, n):
    """How far rounding can move the documented measure: differences of O(vmax) numbers carry
    ~1e-16*vmax absolute error, which the division by gamma^(j-1) amplifies (1000 ulp allowed)."""
    amp = 1.0 / (g ** (n - 1)) if g < 1 else 1.0
    return 1e-13 * (1.0 + vmax) * amp + 1e-9 * eps


def ref_periodic(nxt, rew, prob, g, eps, p, V0, max_iter):
    V = np.array(V0, dtype=float)
    traj, convs, border, conv_flag = [V.copy()], [], False, False
    for n in range(1, max_iter + 1):
        V = backup(nxt, rew, prob, g, V)
        traj.append(V.copy())
        if n < p:
            convs.append(np.inf)
            continue
        c = periodic_measure(traj, n, p, g)
        convs.append(c)
        if abs(c - eps) <= periodic_noise(np.abs(V).max(), eps, g, n):
            border = True
        if c < eps:
            conv_flag = True
            break
    return {"traj": traj, "n": len(traj) - 1, "converged": conv_flag, "border": border, "convs": convs}


def ref_eval(nxt, rew, prob, g, thr, test, pol, V0, max_eval):
    """mdpax's evaluation loop: returns the PRE-update iterate when the test passes; the last
    assigned iterate when the budget runs out.  -> (values, converged, border, sweeps)"""
    V = np.array(V0, dtype=float)
    border = False
    for k in range(max_eval):
        new = backup_pi(nxt, rew, prob, g, V, pol)
        c = measure(test, new, V)
        scale = max(np.abs(new).max(), np.abs(V).max(), abs(thr) if np.isfinite(thr) else 0)
        if abs(c - thr) <= tol(scale, BORDER):
            border = True
        if c < thr:
            return V, True, border, k + 1
        V = new
    return V, False, border, max_eval


def greedy_ambiguous(q, scale=None, tables=None):
    """True if some state's argmax could legitimately differ between implementations: another action
    is within the borderline tolerance of the best one and is not an identical copy of it (identical
    rows give bitwise-identical Q in any implementation, so 'first maximiser' is then unambiguous)."""
    if q.shape[1] < 2:
        return False
    scale = np.abs(q).max() if scale is None else scale
    best = q.argmax(1)
    close = (q.max(1, keepdims=True) - q) <= tol(scale, BORDER)
    for s_, a in zip(*np.where(close)):
        if a == best[s_]:
            continue
        if tables is None:
            return True
        nxt, rew, prob = tables
        b = best[s_]
        if not (np.array_equal(nxt[s_, a], nxt[s_, b]) and np.array_equal(rew[s_, a], rew[s_, b]) and np.array_equal(prob[s_, a], prob[s_, b])):
            return True
    return False


def ref_pi(nxt, rew, prob, g, eps, test, pol0, V0, max_iter, max_eval, reset, exact=False):
    """mdpax policy iteration.  -> dict(pols=[pol0, pol1..], vals=[V after each eval], n, converged, border, eval_ok=[...])"""
    thr = threshold(eps, g)
    pol = np.array(pol0, dtype=int)
    V = np.array(V0, dtype=float)
    init = V.copy()
    pols, vals, eval_ok, border, conv_flag = [pol.copy()], [], [], False, False
    for n in range(1, max_iter + 1):
        start = init if reset else V
        V, ok, b, _ = ref_eval(nxt, rew, prob, g, thr, test, pol, start, max_eval)
        border |= b
        eval_ok.append(ok)
        vals.append(V.copy())
        q = q_values(nxt, rew, prob, g, V)
        if not exact and greedy_ambiguous(q, tables=(nxt, rew, prob)):
            border = True
        new = q.argmax(1)
        changed = int((new != pol).sum())
        pol = new
        pols.append(pol.copy())
        if changed == 0:
            conv_flag = True
            break
    return {"pols": pols, "vals": vals, "n": len(vals), "converged": conv_flag, "border": border, "eval_ok": eval_ok}


def block_gauss_seidel(nxt, rew, prob, g, V, slots):
    """One semi-asynchronous sweep.  slots[d][b] = list of state ids (-1 = padding) processed by
    device d in its b-th batch; each device starts from V and sees its own earlier batches."""
    out = np.array(V, dtype=float).copy()
    for dev in slots:
        cur = np.array(V, dtype=float).copy()
        for batch in dev:
            st = np.array([s for s in batch if s >= 0], dtype=int)
            if len(st) == 0:
                continue
            nv = ((rew[st] + g * cur[nxt[st]]) * prob[st]).sum(-1).max(-1)
            cur[st] = nv
            out[st] = nv
    return out


def slots_for(order, n_devices, n_batches, batch_size):
    n = len(order)
    flat = np.concatenate([np.asarray(order, dtype=int), -np.ones(n_devices * n_batches * batch_size - n, dtype=int)])
    return flat.reshape(n_devices, n_batches, batch_size).tolist()
