"""MDP alphabets (DESIGN section 4.1): tiny whole-MDP families modulo relabelling, row alphabets, packing."""
import itertools

import numpy as np

P2 = [(1.0, 0.0), (0.0, 1.0), (0.5, 0.5), (0.25, 0.75)]
P3 = [(1.0, 0.0, 0.0), (0.5, 0.5, 0.0), (0.25, 0.25, 0.5), (0.0, 0.5, 0.5)]


def mdp(nxt, rew, prob):
    nxt = np.asarray(nxt, dtype=np.int32)
    rew = np.broadcast_to(np.asarray(rew, dtype=float), nxt.shape).copy()
    prob = np.broadcast_to(np.asarray(prob, dtype=float), nxt.shape).copy()
    return nxt, rew, prob


def canon_key(nxt, rew, prob):
    """Lexicographically least table under relabelling of states, actions and events."""
    S, A, E = nxt.shape
    best = None
    for sp in itertools.permutations(range(S)):
        sp = np.array(sp)
        inv = np.argsort(sp)
        for ap in itertools.permutations(range(A)):
            for ep in itertools.permutations(range(E)):
                n2 = sp[nxt[np.ix_(inv, ap, ep)]]
                r2 = rew[np.ix_(inv, ap, ep)]
                p2 = prob[np.ix_(inv, ap, ep)]
                key = (n2.tobytes(), r2.tobytes(), p2.tobytes())
                if best is None or key < best:
                    best = key
    return best


def dedup(mdps):
    seen, out = set(), []
    for m in mdps:
        k = canon_key(*m)
        if k not in seen:
            seen.add(k)
            out.append(m)
    return out


def M1():
    """S=1: A in {1,2}, E in {1,2} - tight instances for the value bounds."""
    out = []
    for A in (1, 2):
        for E in (1, 2):
            for r in itertools.product([-1.0, 0.0, 2.0], repeat=A):
                nxt = np.zeros((1, A, E), dtype=np.int32)
                rew = np.array(r).reshape(1, A, 1)
                prob = np.full((1, A, E), 1.0 / E)
                out.append(mdp(nxt, rew, prob))
    return out


def M2d(canonical=True):
    """S=2, A=2, E=1 deterministic, r(s,a) in {-1,0,2}: 1296 tables, 351 canonical."""
    out = []
    for nx in itertools.product(range(2), repeat=4):
        for r in itertools.product([-1.0, 0.0, 2.0], repeat=4):
            out.append(mdp(np.array(nx).reshape(2, 2, 1), np.array(r).reshape(2, 2, 1), 1.0))
    return dedup(out) if canonical else out


def M2s(canonical=True):
    """S=2, A=2, E=2, p=(1/2,1/2), r(s,a) in {0,1}: 4096 tables, 592 canonical."""
    out = []
    for nx in itertools.product(range(2), repeat=8):
        for r in itertools.product([0.0, 1.0], repeat=4):
            out.append(mdp(np.array(nx).reshape(2, 2, 2), np.array(r).reshape(2, 2, 1), 0.5))
    return dedup(out) if canonical else out


def M3d(canonical=True):
    """S=3, A=2, E=1, r(s,a) in {0,1}: 46656 tables."""
    out = []
    for nx in itertools.product(range(3), repeat=6):
        for r in itertools.product([0.0, 1.0], repeat=6):
            out.append(mdp(np.array(nx).reshape(3, 2, 1), np.array(r).reshape(3, 2, 1), 1.0))
    return dedup(out) if canonical else out


def Mreset(S=2, rewards=(0.0, 1.0, -2.0), canonical=True):
    """event 0 (p=1/2): table successor; event 1 (p=1/2): reset to state 0.  Always unichain+aperiodic."""
    out = []
    for nx in itertools.product(range(S), repeat=S * 2):
        for r in itertools.product(rewards, repeat=S * 2):
            nxt = np.zeros((S, 2, 2), dtype=np.int32)
            nxt[:, :, 0] = np.array(nx).reshape(S, 2)
            out.append(mdp(nxt, np.array(r).reshape(S, 2, 1), 0.5))
    if not canonical:
        return out
    # state 0 is distinguished (reset target): only relabel the other states / actions
    seen, res = set(), []
    for m in out:
        nxt, rew, prob = m
        best = None
        for sp in itertools.permutations(range(1, S)):
            sp = np.array((0,) + sp)
            inv = np.argsort(sp)
            for ap in itertools.permutations(range(2)):
                key = (sp[nxt[np.ix_(inv, ap, [0, 1])]].tobytes(), rew[np.ix_(inv, ap, [0, 1])].tobytes())
                if best is None or key < best:
                    best = key
        if best not in seen:
            seen.add(best)
            res.append(m)
    return res


def Mgen(n, A=3, E=3, seed=1):
    """One fixed MDP per size n: LCG-generated dyadic tables, with an absorbing state, an unreachable
    state (when n >= 3), duplicated actions 0/1 in state 0 and a tie."""
    x = (seed * 2654435761 + n * 40503) % (2 ** 31)

    def nxt_rand(m):
        nonlocal x
        x = (1103515245 * x + 12345) % (2 ** 31)
        return (x >> 8) % m

    nxt = np.zeros((n, A, E), dtype=np.int32)
    rew = np.zeros((n, A, E))
    prob = np.zeros((n, A, E))
    pats = [(0.5, 0.25, 0.25), (0.25, 0.25, 0.5), (1.0, 0.0, 0.0), (0.0, 0.5, 0.5), (0.125, 0.375, 0.5)]
    unreachable = n - 2 if n >= 4 else None
    for s in range(n):
        for a in range(A):
            pat = pats[nxt_rand(len(pats))][:E]
            pat = np.array(pat) / sum(pat) if sum(pat) > 0 else np.full(E, 1.0 / E)
            for e in range(E):
                t = nxt_rand(n)
                if unreachable is not None and t == unreachable and s != unreachable:
                    t = (t + 1) % n
                nxt[s, a, e] = t
                rew[s, a, e] = float(nxt_rand(7) - 3)
            prob[s, a] = pat
    if n >= 2:
        nxt[n - 1] = n - 1  # absorbing last state; all actions identical rows (an exact, unambiguous tie)
        rew[n - 1] = 0.5
        prob[n - 1] = prob[n - 1, 0]
    nxt[0, 1] = nxt[0, 0]
    rew[0, 1] = rew[0, 0]
    prob[0, 1] = prob[0, 0]  # duplicated action (exact tie)
    return nxt, rew, prob


def Mtie(g, eps):
    """State 0: self-loop with reward rho, or move to absorbing state 1 paying c=1 per step.
    rho chosen so that the two actions' true values differ by delta in either direction."""
    out = []
    c = 1.0
    vabs = c / (1 - g)
    for frac in (0.25, 0.5, 1.0, 2.0):
        for sign in (-1, 1):
            delta = sign * frac * eps
            # action 0: stay forever: rho/(1-g); action 1: 0 + g*vabs ; want stay - move = delta
            rho = (g * vabs + delta) * (1 - g)
            nxt = np.array([[[0], [1]], [[1], [1]]], dtype=np.int32)
            rew = np.array([[[rho], [0.0]], [[c], [c]]])
            out.append(mdp(nxt, rew, 1.0))
    return out


def Mchain():
    """Hand-listed structural families for the average-reward checks: name -> (nxt, rew, prob)."""
    fam = {}
    for p in (2, 3, 4):
        nxt = np.array([[[(s + 1) % p]] for s in range(p)], dtype=np.int32)
        rew = np.array([[[float(s % 2) + (2.0 if s == 0 else 0.0)]] for s in range(p)])
        fam["cycle%d" % p] = mdp(nxt, rew, 1.0)
    # cycle of 3 plus self-loop choice in state 0 (aperiodic under one policy, periodic under the other)
    nxt = np.array([[[1], [0]], [[2], [2]], [[0], [0]]], dtype=np.int32)
    rew = np.array([[[0.0], [0.5]], [[3.0], [3.0]], [[0.0], [0.0]]])
    fam["cycle3+loop"] = mdp(nxt, rew, 1.0)
    # chain with transient states feeding a 2-state stochastic recurrent class
    nxt = np.array([[[1, 1], [2, 3]], [[2, 2], [2, 3]], [[3, 2], [3, 3]], [[2, 3], [2, 3]]], dtype=np.int32)
    rew = np.array([[[5.0, 5.0], [0.0, 0.0]], [[1.0, 1.0], [0.0, 2.0]], [[0.0, 1.0], [1.0, 1.0]], [[2.0, 0.0], [0.5, 0.5]]])
    fam["transient"] = mdp(nxt, rew, 0.5)
    # near-periodic: 2-cycle with self-loop probability 1/8
    nxt = np.array([[[1, 0]], [[0, 1]]], dtype=np.int32)
    rew = np.array([[[1.0, 1.0]], [[0.0, 0.0]]])
    prob = np.array([[[0.875, 0.125]], [[0.875, 0.125]]])
    fam["near-periodic"] = mdp(nxt, rew, prob)
    # two-class multichain (classifier must exclude it)
    nxt = np.array([[[0]], [[1]]], dtype=np.int32)
    rew = np.array([[[1.0]], [[2.0]]])
    fam["multichain"] = mdp(nxt, rew, 1.0)
    return fam


def block_pack(mdps):
    """Disjoint union of MDPs with equal A and E -> one MDP; returns (nxt, rew, prob, offsets)."""
    offs, tot = [], 0
    for m in mdps:
        offs.append(tot)
        tot += m[0].shape[0]
    A, E = mdps[0][0].shape[1:]
    nxt = np.zeros((tot, A, E), dtype=np.int32)
    rew = np.zeros((tot, A, E))
    prob = np.zeros((tot, A, E))
    for o, (n, r, p) in zip(offs, mdps):
        S = n.shape[0]
        nxt[o:o + S] = n + o
        rew[o:o + S] = r
        prob[o:o + S] = p
    return nxt, rew, prob, offs


def row_alphabet(A, E, R=(-2.0, 0.0, 1.0), W=(-3.0, 0.0, 1.0, 4.0)):
    """Row-packed problem: first |W| states are self-looping anchors carrying the values W, then one
    state per row (prob pattern per action, reward and successor anchor per (a,e)).
    -> (nxt, rew, prob, V) with V the value vector that puts W on the anchors."""
    pats = {1: [(1.0,)], 2: P2, 3: P3}[E]
    nW = len(W)
    pp = np.array(list(itertools.product(range(len(pats)), repeat=A)))          # [np, A]
    rr = np.array(list(itertools.product(range(len(R)), repeat=A * E)))          # [nr, A*E]
    ww = np.array(list(itertools.product(range(nW), repeat=A * E)))              # [nw, A*E]
    n = len(pp) * len(rr) * len(ww)
    ip, ir, iw = np.meshgrid(np.arange(len(pp)), np.arange(len(rr)), np.arange(len(ww)), indexing="ij")
    ip, ir, iw = ip.reshape(-1), ir.reshape(-1), iw.reshape(-1)
    S = nW + n
    nxt = np.zeros((S, A, E), dtype=np.int32)
    rew = np.zeros((S, A, E))
    prob = np.zeros((S, A, E))
    for j in range(nW):
        nxt[j] = j
        prob[j, :, 0] = 1.0
    patarr = np.array(pats)                     # [npat, E]
    prob[nW:] = patarr[pp[ip]]                  # [n, A, E]
    rew[nW:] = np.array(R)[rr[ir]].reshape(n, A, E)
    nxt[nW:] = ww[iw].reshape(n, A, E)
    V = np.zeros(S)
    V[:nW] = W
    V[nW:] = (np.arange(n) % 7) - 3.0
    return nxt, rew, prob, V


def Mtie_avg(eps):
    """Average-reward near-tie family (unichain, aperiodic under every policy): in state 0 action A
    earns 1 and drifts (p=1/2) to the zero-reward state 1, action B stays and earns 1/2 + delta.
    Gains: A = 1/2, B = 1/2 + delta; early iterates prefer A."""
    out = []
    for frac in (0.25, 0.5, 0.9, 2.0):
        for sign in (-1, 1):
            d = sign * frac * eps
            nxt = np.array([[[1, 0], [0, 0]], [[0, 1], [0, 1]]], dtype=np.int32)
            rew = np.array([[[1.0, 1.0], [0.5 + d, 0.5 + d]], [[0.0, 0.0], [0.0, 0.0]]])
            out.append(mdp(nxt, rew, 0.5))
    return out


def Manchor():
    """Two absorbing anchors paying +1 and -1 per step plus one deciding state with two actions
    (reward in {-1,0,1}, successor in {0,1,2}): 81 MDPs whose first sweeps change values with both
    signs (absorbing states, rewards of either sign, sign-symmetric value changes)."""
    out = []
    for ra, rb in itertools.product((-1.0, 0.0, 1.0), repeat=2):
        for na, nb in itertools.product(range(3), repeat=2):
            nxt = np.array([[[0], [0]], [[1], [1]], [[na], [nb]]], dtype=np.int32)
            rew = np.array([[[1.0], [1.0]], [[-1.0], [-1.0]], [[ra], [rb]]])
            out.append(mdp(nxt, rew, 1.0))
    return out
