"""Fresh-interpreter precision probe for C20:  python -m mc.c20_fresh '<json>'
spec = {"order": "problem_first"|"x64_first"|"config_only", "solver":..., "problem":..., "kw":..., "sweeps": 3}
Nothing but the library is imported before the objects are built (no 64-bit switch unless x64_first)."""
import json
import logging
import os
import sys


def main():
    spec = json.loads(sys.argv[1])
    os.environ["JAX_PLATFORMS"] = "cpu"
    logging.getLogger("jax._src.xla_bridge").setLevel(logging.CRITICAL)
    import jax
    import numpy as np

    if spec["order"] == "x64_first":
        jax.config.update("jax_enable_x64", True)
    from mc import drive, probtable as PT

    cls = drive.solver_cls(spec["solver"])
    kw = dict(spec["kw"], verbose=0)
    out = {"error": None}
    try:
        if spec["order"] == "config_only":
            from mdpax import problems as MP

            pcls = {"forest": MP.Forest, "demoor": MP.DeMoorSingleProductPerishable, "mirjalili": MP.MirjaliliPlateletPerishable, "hendrix": MP.HendrixTwoProductPerishable}[spec["problem"]["kind"]]
            pc = {k: (tuple(v) if isinstance(v, list) else v) for k, v in spec["problem"]["kw"].items()}
            s = cls(config=cls.Config(problem=pcls.Config(**pc), **kw))
        else:
            pr = PT.make(spec["problem"]["kind"], {k: (tuple(v) if isinstance(v, list) else v) for k, v in spec["problem"]["kw"].items()})[0]
            s = cls(pr, **kw)
        r = s.solve(spec.get("sweeps", 3))
        v = np.asarray(r.values)
        out.update(dtype=str(v.dtype), values=[float(x) for x in v.astype(np.float64)], iteration=int(r.info.iteration), x64=bool(jax.config.jax_enable_x64))
    except Exception as e:
        out["error"] = "%s: %s" % (type(e).__name__, str(e)[:300])
    sys.stdout.write("RESULT" + json.dumps(out) + "\n")
    sys.stdout.flush()
    os._exit(0)


if __name__ == "__main__":
    main()
