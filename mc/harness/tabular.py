"""TableMDP: any S x A x E tables presented to mdpax through the public Problem interface.

Encodings let the same tables appear with 1..3-dimensional state / action / event vectors,
with or without a +1 offset (so the all-zero padding vector is / is not a real state), and
with probabilities returned as scalars or as 1-element arrays.
"""
import numpy as np


class Enc:
    """Mixed-radix encodings.  radix tuples must have product >= the table size."""

    def __init__(self, s=None, a=None, e=None, s_off=0, a_off=0, e_off=0):
        self.s, self.a, self.e = s, a, e
        self.s_off, self.a_off, self.e_off = s_off, a_off, e_off

    def key(self):
        return "s%s+%d a%s+%d e%s+%d" % (self.s, self.s_off, self.a, self.a_off, self.e, self.e_off)

    def to_json(self):
        return {"s": self.s, "a": self.a, "e": self.e, "s_off": self.s_off, "a_off": self.a_off, "e_off": self.e_off}

    @staticmethod
    def from_json(d):
        d = dict(d)
        for k in ("s", "a", "e"):
            if d.get(k) is not None:
                d[k] = tuple(d[k])
        return Enc(**d)


def _space(n, radix, off):
    radix = tuple(radix) if radix else (n,)
    assert int(np.prod(radix)) >= n, (radix, n)
    cols = np.unravel_index(np.arange(n), radix)
    return (np.stack(cols, axis=1) + off).astype(np.int32), radix


def make_problem(nxt, rew, prob, v0=None, pol0=None, enc=None, prob_as_array=False, name="tab", oob_zero_prob=False):
    """Build the Problem (imports jax lazily so that worker env is set first)."""
    import jax.numpy as jnp
    from mdpax.core.problem import Problem

    enc = enc or Enc()
    nxt_np = np.asarray(nxt, dtype=np.int32)
    S, A, E = nxt_np.shape
    if oob_zero_prob:
        # a problem may report ANY successor for an event of probability zero: send those to the
        # vector (S,), whose (unclipped) index S lies outside the state space
        assert enc.s is None and enc.s_off == 0, "oob_zero_prob needs the plain state encoding"
        nxt_np = np.where(np.asarray(prob) == 0, S, nxt_np).astype(np.int32)
    sp_s, rs = _space(S, enc.s, enc.s_off)
    sp_a, ra = _space(A, enc.a, enc.a_off)
    sp_e, re_ = _space(E, enc.e, enc.e_off)

    class TableMDP(Problem):
        def __init__(self):
            self._nxt = jnp.array(nxt_np)
            self._rew = jnp.array(np.asarray(rew, dtype=np.float64))
            self._prob = jnp.array(np.asarray(prob, dtype=np.float64))
            self._enc_states = jnp.array(np.vstack([sp_s, np.full((1, sp_s.shape[1]), S, dtype=np.int32)]) if oob_zero_prob else sp_s)
            self._v0 = None if v0 is None else jnp.array(np.asarray(v0, dtype=np.float64))
            self._pol0 = None if pol0 is None else jnp.array(np.asarray(pol0, dtype=np.int32))
            self._acts = jnp.array(sp_a)
            super().__init__()

        @property
        def name(self):
            return name

        def _construct_state_space(self):
            return jnp.array(sp_s)

        def _construct_action_space(self):
            return jnp.array(sp_a)

        def _construct_random_event_space(self):
            return jnp.array(sp_e)

        def _si(self, s):
            return jnp.clip(jnp.ravel_multi_index(tuple(s - enc.s_off), rs, mode="clip"), 0, S - 1)

        def _ai(self, a):
            return jnp.clip(jnp.ravel_multi_index(tuple(a - enc.a_off), ra, mode="clip"), 0, A - 1)

        def _ei(self, e):
            return jnp.clip(jnp.ravel_multi_index(tuple(e - enc.e_off), re_, mode="clip"), 0, E - 1)

        def state_to_index(self, s):
            if oob_zero_prob:
                return s[0]  # no clipping: the index of the non-state (S,) is S
            return self._si(s)

        def random_event_probability(self, s, a, e):
            p = self._prob[self._si(s), self._ai(a), self._ei(e)]
            return p.reshape(1) if prob_as_array else p

        def transition(self, s, a, e):
            si, ai, ei = self._si(s), self._ai(a), self._ei(e)
            r = self._rew[si, ai, ei]
            if enc.s_off > 0:
                # vectors below the offset (e.g. the all-zero padding vector) are NOT states of this
                # problem: give them a poisoned reward so that any leak of a padding slot into a
                # real state's value or action is visible
                r = jnp.where(jnp.all(s >= enc.s_off), r, 777.0)
            return self._enc_states[self._nxt[si, ai, ei]], r

        def initial_value(self, s):
            if self._v0 is None:
                return 0.0
            return self._v0[self._si(s)]

        def initial_policy(self, s):
            if self._pol0 is None:
                raise NotImplementedError("No custom initial policy defined")
            return self._acts[self._pol0[self._si(s)]]

    p = TableMDP()
    p.tables = (nxt_np, np.asarray(rew, dtype=np.float64), np.asarray(prob, dtype=np.float64))
    p.action_vectors = sp_a
    p.state_vectors = sp_s
    return p


def policy_to_indices(problem, policy):
    """Map returned action vectors [S, action_dim] to action indices; -1 if not a row of the action space."""
    pol = np.asarray(policy)
    acts = np.asarray(problem.action_space)
    pol = pol.reshape(len(pol), -1)
    out = np.full(len(pol), -1, dtype=int)
    for i, row in enumerate(pol):
        m = np.where((acts == row).all(axis=1))[0]
        if len(m):
            out[i] = int(m[0])
    return out


# a fixed menu of encodings used by several checks
ENCODINGS = {
    "plain": dict(),
    "offset": dict(s_off=1),
    "2d": dict(s="2d", a="2d", e="2d"),
    "3d-offset": dict(s="3d", e="3d", s_off=1, a_off=0, e_off=0),
}


def enc_for(kind, S, A, E):
    """Concrete Enc for table sizes."""

    def two(n):
        k = max(1, int(np.ceil(np.sqrt(n))))
        return (int(np.ceil(n / k)), k)

    def three(n):
        a, b = two(n)
        return (a, 1, b)  # a zero-width middle coordinate

    spec = dict(ENCODINGS[kind])
    for k, n in (("s", S), ("a", A), ("e", E)):
        if spec.get(k) == "2d":
            spec[k] = two(n)
        elif spec.get(k) == "3d":
            spec[k] = three(n)
    return Enc(**spec)
