"""Run one real solver case (a TableMDP, solver parameters, a sequence of solve(k) calls) and
return plain observations after every call.  Used by the solve-level checks."""
import numpy as np

from mc.ref import bellman as B

INIT = {
    "zero": lambda S: None,
    "seven": lambda S: np.full(S, 7.0),
    "ramp": lambda S: (np.arange(S) % 5) * 1.5 - 2.0,
    "neg": lambda S: -4.0 - (np.arange(S) % 3),
}


def tables_of(case):
    nxt, rew, prob = case["tables"]
    nxt = np.asarray(nxt, dtype=np.int32)
    rew = np.asarray(rew, dtype=float) * case.get("scale", 1.0)
    prob = np.asarray(prob, dtype=float)
    return nxt, rew, prob


def v0_of(case, S):
    if case.get("v0") is not None:
        return np.asarray(case["v0"], dtype=float)
    v = INIT[case.get("init", "zero")](S)
    if v is None:
        return np.zeros(S)
    return v * case.get("scale", 1.0) if case.get("scale_init", True) else v


def solver_kwargs(case):
    kind = case["kind"]
    kw = dict(epsilon=case["eps"], max_batch_size=case.get("mbs", 1024))
    if kind != "rvi":
        kw["gamma"] = case["gamma"]
    if kind in ("vi", "pi", "savi"):
        kw["convergence_test"] = case.get("test", "span")
    if kind == "pi":
        kw["max_eval_iter"] = case.get("max_eval", 100)
        kw["reset_values_for_each_policy_eval"] = case.get("reset", False)
    if kind == "pvi":
        kw["period"] = case["period"]
        kw["clear_value_history_on_convergence"] = case.get("clear", True)
    if kind == "savi":
        kw["shuffle_states"] = case.get("shuffle", False)
        kw["random_seed"] = case.get("seed", 42)
    kw.update(case.get("extra_kw", {}))
    return kw


def build(case):
    from mc import drive
    from mc.harness import tabular as T

    nxt, rew, prob = tables_of(case)
    S, A, E = nxt.shape
    enc = T.enc_for(case.get("enc", "plain"), S, A, E)
    v0 = None if (case.get("v0") is None and case.get("init", "zero") == "zero") else v0_of(case, S)
    pr = T.make_problem(nxt, rew, prob, v0=v0, pol0=case.get("pol0"), enc=enc, prob_as_array=case.get("parr", False))
    s = drive.make_solver(case["kind"], pr, **solver_kwargs(case))
    return pr, s


def snapshot(pr, s, res=None):
    from mc import drive
    from mc.harness.tabular import policy_to_indices

    st = drive.state_of(s)
    out = {"iteration": st["iteration"], "values": st["values"]}
    out["policy"] = None if st["policy"] is None else policy_to_indices(pr, st["policy"])
    for k in ("gain", "value_history", "history_index", "period"):
        if k in st:
            out[k] = st[k]
    if res is not None:
        out["res_iteration"] = int(res.info.iteration)
        out["res_values_equal_state"] = bool(np.array_equal(np.asarray(res.values), st["values"]))
    return out


def run_case(case):
    """-> dict(obs=[snapshot after construction, after each call], error=None|str)"""
    from mc import workers

    workers.ensure(case.get("devices", 1))
    try:
        pr, s = build(case)
    except Exception as e:
        return {"obs": [], "error": "construct: %s: %s" % (type(e).__name__, str(e)[:200])}
    obs = [snapshot(pr, s)]
    for k in case["calls"]:
        try:
            res = s.solve(k)
        except Exception as e:
            return {"obs": obs, "error": "solve(%d): %s: %s" % (k, type(e).__name__, str(e)[:200])}
        obs.append(snapshot(pr, s, res))
    perms = getattr(s, "_verif_sweep_permutations", None)
    if perms is not None:
        perms = [None if p is None else np.asarray(p).tolist() for p in perms]
    return {"obs": obs, "error": None, "layout": [s.n_devices, s.batch_processor.n_batches, s.batch_size, s.n_pad], "perms": perms}


def strip(case):
    """JSON-able description of a case (tables included: they are tiny)."""
    c = dict(case)
    c["tables"] = [np.asarray(t).tolist() for t in case["tables"]]
    if c.get("v0") is not None:
        c["v0"] = np.asarray(c["v0"]).tolist()
    if c.get("pol0") is not None:
        c["pol0"] = np.asarray(c["pol0"]).tolist()
    return c


def case_key(case):
    skip = ("tables", "v0", "pol0")
    return " ".join("%s=%s" % (k, case[k]) for k in sorted(case) if k not in skip and case[k] is not None)
