"""Runner: tiers, seed, process pools, evidence, known findings, replay files.

usage: python -m mc.runner C07 [--tier quick|thorough] [--replay FILE]

exit 0  property held on everything explored (known findings are printed, not failed)
exit 1  at least one violation that known_findings.json does not list
exit 2  machinery error / unstable replay (never reported as a VIOLATION)
"""
import argparse
import hashlib
import importlib
import json
import multiprocessing as mp
import os
import shutil
import sys
import tempfile
import time
import traceback

ROOT = os.path.dirname(os.path.dirname(os.path.abspath(__file__)))
NPROC = int(os.environ.get("VERIF_NPROC", str(min(16, os.cpu_count() or 4))))


def _json_default(o):
    import numpy as np

    if isinstance(o, (np.integer,)):
        return int(o)
    if isinstance(o, (np.floating,)):
        return float(o)
    if isinstance(o, np.ndarray):
        return o.tolist()
    if isinstance(o, (set, frozenset, tuple)):
        return list(o)
    if isinstance(o, bytes):
        return o.hex()
    return repr(o)


def jdump(obj, path=None, **kw):
    s = json.dumps(obj, default=_json_default, **kw)
    if path is None:
        return s
    tmp = path + ".tmp"
    with open(tmp, "w") as f:
        f.write(s + "\n")
    os.replace(tmp, path)


class Ctx:
    """Everything a check needs from the runner."""

    def __init__(self, prop, tier, seed):
        self.prop = prop
        self.tier = tier
        self.seed = seed
        self.quick = tier == "quick"
        self.violations = []  # dicts: key, what, case
        self.cov = {"states": 0, "transitions": 0, "traces_validated_against_impl": 0,
                    "samples": [], "exhaustive": True, "outcome_classes": {}}
        self.assumptions = []
        self._pools = {}
        self.scratch = None
        self.t0 = time.time()

    # -- bookkeeping --------------------------------------------------
    def violation(self, key, what, case=None):
        self.violations.append({"key": str(key), "what": str(what), "case": case})

    def count(self, states=0, transitions=0, traces=0):
        self.cov["states"] += int(states)
        self.cov["transitions"] += int(transitions)
        self.cov["traces_validated_against_impl"] += int(traces)

    def outcome(self, name, n=1):
        oc = self.cov["outcome_classes"]
        oc[name] = oc.get(name, 0) + int(n)

    def sample(self, case, limit=6):
        if len(self.cov["samples"]) < limit:
            self.cov["samples"].append(case)

    def note(self, key, value):
        self.cov[key] = value

    def bump(self, key, n=1):
        self.cov[key] = self.cov.get(key, 0) + n

    def maxnote(self, key, value):
        self.cov[key] = max(self.cov.get(key, value), value)

    def assume(self, text):
        if text not in self.assumptions:
            self.assumptions.append(text)

    def log(self, *a):
        print("[%s %6.1fs]" % (self.prop, time.time() - self.t0), *a, file=sys.stderr, flush=True)

    # -- resources ----------------------------------------------------
    def scratch_dir(self):
        if self.scratch is None:
            base = "/dev/shm" if os.path.isdir("/dev/shm") and os.access("/dev/shm", os.W_OK) else tempfile.gettempdir()
            self.scratch = tempfile.mkdtemp(prefix="mdpaxv.%d." % os.getpid(), dir=base)
        return self.scratch

    def pool(self, devices=1, procs=None):
        """Spawned worker pool whose processes see `devices` emulated host devices."""
        key = (devices, procs)
        if key not in self._pools:
            from mc import workers

            ctx = mp.get_context("spawn")
            self._pools[key] = ctx.Pool(procs or NPROC, initializer=workers.init, initargs=(devices,))
        return self._pools[key]

    def map(self, fn, jobs, devices=1, procs=None, chunksize=1):
        """Unordered parallel map over picklable jobs -> list of results (in job order)."""
        jobs = list(jobs)
        if not jobs:
            return []
        p = self.pool(devices, procs)
        out = [None] * len(jobs)
        for i, r in p.imap_unordered(_call, [(fn.__module__, fn.__name__, i, j) for i, j in enumerate(jobs)], chunksize):
            out[i] = r
        return out

    def close_pool(self, devices=1, procs=None):
        p = self._pools.pop((devices, procs), None)
        if p is not None:
            p.terminate()
            p.join()

    def close(self):
        for p in self._pools.values():
            p.terminate()
            p.join()
        self._pools = {}
        if self.scratch and os.path.isdir(self.scratch):
            shutil.rmtree(self.scratch, ignore_errors=True)


def _call(arg):
    mod, name, i, job = arg
    fn = getattr(importlib.import_module(mod), name)
    try:
        return i, fn(job)
    except Exception as e:  # a crashing worker job is a machinery error, surfaced by the check
        return i, {"__error__": "%s: %s" % (type(e).__name__, e), "__tb__": traceback.format_exc(), "job": job}


def load_known():
    path = os.path.join(ROOT, "known_findings.json")
    if not os.path.exists(path):
        return {}
    with open(path) as f:
        data = json.load(f)
    known = {}
    for e in data.get("findings", []):
        known.setdefault(e["property"], {})[e["key"]] = e["what"]
    return known


def main(argv=None):
    ap = argparse.ArgumentParser()
    ap.add_argument("prop")
    ap.add_argument("--tier", default=os.environ.get("VERIF_TIER", "quick"), choices=["quick", "thorough"])
    ap.add_argument("--replay", default=None)
    a = ap.parse_args(argv)
    seed = int(os.environ.get("VERIF_SEED", "0") or 0)
    prop = a.prop
    os.chdir(ROOT)
    mod = importlib.import_module("mc.checks." + prop)
    ctx = Ctx(prop, a.tier, seed)
    t0 = time.time()
    rc = 0
    try:
        if a.replay:
            with open(a.replay) as f:
                rep = json.load(f)
            assert rep["property"] == prop, "replay file is for %s" % rep["property"]
            res = mod.replay(ctx, rep["case"])
            ctx.close()
            if res:
                print("REPLAY-VIOLATES property=%s key=%s :: %s" % (prop, rep["key"], res))
                return 1
            print("REPLAY-OK property=%s key=%s" % (prop, rep["key"]))
            return 0
        mod.run(ctx)
    except Exception:
        traceback.print_exc()
        print("MACHINERY-ERROR property=%s" % prop)
        rc = 2
    finally:
        ctx.close()
    known = load_known().get(prop, {})
    seen_known, fresh = {}, []
    for v in ctx.violations:
        if v["key"] in known:
            seen_known.setdefault(v["key"], v)
        else:
            fresh.append(v)
    for k, v in sorted(seen_known.items()):
        print("KNOWN-FINDING: property=%s %s :: %s" % (prop, k, known[k]))
    os.makedirs(os.path.join(ROOT, "replays"), exist_ok=True)
    printed = set()
    for v in fresh:
        if v["key"] in printed:
            continue
        printed.add(v["key"])
        h = hashlib.sha1(v["key"].encode()).hexdigest()[:10]
        path = os.path.join("replays", "%s-%s.json" % (prop, h))
        if len(printed) > 25:
            continue  # the first 25 distinct violations get a replay file and a line
        jdump({"property": prop, "key": v["key"], "what": v["what"], "case": v["case"], "tier": a.tier, "seed": seed}, path, indent=1)
        if len(printed) <= 25:
            print("VIOLATION property=%s replay=%s :: %s :: %s" % (prop, path, v["key"], v["what"][:300]))
    if len(printed) > 25:
        print("... %d further violations (no replay files beyond the first 25)" % (len(printed) - 25))
    if os.environ.get("VERIF_DUMP_VIOLATIONS"):
        # development aid (never read back at run time): every distinct violation of this run
        seen_k, dump = set(), []
        for v in ctx.violations:
            if v["key"] not in seen_k:
                seen_k.add(v["key"])
                dump.append({"property": prop, "key": v["key"], "what": v["what"]})
        jdump(dump, os.environ["VERIF_DUMP_VIOLATIONS"], indent=1)
    if fresh and rc == 0:
        rc = 1
    cov = ctx.cov
    cov["known_findings_reobserved"] = sorted(seen_known)
    cov["distinct_violation_keys"] = len(printed)
    if not cov["samples"]:
        cov["samples"] = ["(no sample recorded)"]
    ev = {
        "property_id": prop,
        "tier": a.tier,
        "seed": seed,
        "level": getattr(mod, "LEVEL", "model_checking"),
        "coverage": cov,
        "assumptions": ctx.assumptions,
        "wall_s": round(time.time() - t0, 2),
        "violations": len(printed),
    }
    os.makedirs(os.path.join(ROOT, "evidence"), exist_ok=True)
    jdump(ev, os.path.join(ROOT, "evidence", prop + ".json"), indent=1)
    try:
        import jsonschema

        sch = "/root/.vp/EVIDENCE.schema.json"
        if os.path.exists(sch):
            with open(sch) as f:
                jsonschema.validate(json.loads(jdump(ev)), json.load(f))
    except ImportError:
        pass
    print("%s tier=%s seed=%d states=%d transitions=%d traces=%d violations=%d known=%d wall=%.1fs rc=%d" % (
        prop, a.tier, seed, cov["states"], cov["transitions"], cov["traces_validated_against_impl"],
        len(printed), len(seen_known), time.time() - t0, rc))
    return rc


if __name__ == "__main__":
    sys.exit(main())
