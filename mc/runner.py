"""Runner: tiers, seed, process pools, evidence, known findings, replay files.

usage: python -m mc.runner C07 [--tier quick|thorough] [--replay FILE]

exit 0  property held on everything explored (known findings are printed, not failed)
exit 1  at least one violation that known_findings.json does not list
exit 2  machinery error / unstable replay (never reported as a VIOLATION)
"""
import argparse
import hashlib
import importlib
import json
import multiprocessing as mp
import os
import shutil
import sys
import tempfile
import time
import traceback

ROOT = os.path.dirname(os.path.dirname(os.path.abspath(__file__)))
NPROC = int(os.environ.get("VERIF_NPROC", str(min(16, os.cpu_count() or 4))))


def _json_default(o):
    import numpy as np

    if isinstance(o, (np.integer,)):
        return int(o)
    if isinstance(o, (np.floating,)):
        return float(o)
    if isinstance(o, np.ndarray):
        return o.tolist()
    if isinstance(o, (set, frozenset, tuple)):
        return list(o)
    if isinstance(o, bytes):
        return o.hex()
    return repr(o)


def jdump(obj, path=None, **kw):
    s = json.dumps(obj, default=_json_default, **kw)
    if path is None:
        return s
    tmp = path + ".tmp"
    with open(tmp, "w") as f:
        f.write(s + "\n")
    os.replace(tmp, path)


class Ctx:
    """Everything a check needs from the runner."""

    def __init__(self, prop, tier, seed):
        self.prop = prop
        self.tier = tier
        self.seed = seed
        self.quick = tier == "quick"
        self.violations = []  # dicts: key, what, case
        self.cov = {"states": 0, "transitions": 0, "traces_validated_against_impl": 0,
                    "samples": [], "exhaustive": True, "outcome_classes": {}}
        self.assumptions = []
        self._pools = {}
        self.scratch = None
        self.t0 = time.time()

    # -- bookkeeping --------------------------------------------------
    def violation(self, key, what, case=None):
        self.violations.append({"key": str(key), "what": str(what), "case": case})

    def count(self, states=0, transitions=0, traces=0):
        self.cov["states"] += int(states)
        self.cov["transitions"] += int(transitions)
        self.cov["traces_validated_against_impl"] += int(traces)

    def outcome(self, name, n=1):
        oc = self.cov["outcome_classes"]
        oc[name] = oc.get(name, 0) + int(n)

    def sample(self, case, limit=6):
        if len(self.cov["samples"]) < limit:
            self.cov["samples"].append(case)

    def note(self, key, value):
        self.cov[key] = value

    def bump(self, key, n=1):
        self.cov[key] = self.cov.get(key, 0) + n

    def maxnote(self, key, value):
        self.cov[key] = max(self.cov.get(key, value), value)

    def assume(self, text):
        if text not in self.assumptions:
            self.assumptions.append(text)

    def log(self, *a):
        print("[%s %6.1fs]" % (self.prop, time.time() - self.t0), *a, file=sys.stderr, flush=True)

    # -- resources ----------------------------------------------------
    def scratch_dir(self):
        if self.scratch is None:
            base = "/dev/shm" if os.path.isdir("/dev/shm") and os.access("/dev/shm", os.W_OK) else tempfile.gettempdir()
            self.scratch = tempfile.mkdtemp(prefix="mdpaxv.%d." % os.getpid(), dir=base)
        return self.scratch

    def pool(self, devices=1, procs=None):
        """Spawned worker pool whose processes see `devices` emulated host devices.  A
        ProcessPoolExecutor is used because it reports a dead worker (e.g. killed by the kernel's
        OOM killer) as BrokenProcessPool instead of hanging forever."""
        from concurrent.futures import ProcessPoolExecutor

        key = (devices, procs)
        if key not in self._pools:
            from mc import workers

            self._pools[key] = ProcessPoolExecutor(procs or NPROC, mp_context=mp.get_context("spawn"), initializer=workers.init, initargs=(devices,))
        return self._pools[key]

    def map(self, fn, jobs, devices=1, procs=None, chunksize=1):
        """Parallel map over picklable jobs -> list of results (in job order).  If a worker process
        dies the unfinished jobs are retried once on a fresh, half-size pool; a second failure is a
        machinery error (exit 2), never a violation."""
        from concurrent.futures import as_completed
        from concurrent.futures.process import BrokenProcessPool

        jobs = list(jobs)
        out = [None] * len(jobs)
        todo = list(range(len(jobs)))
        for attempt in (0, 1):
            if not todo:
                break
            p = self.pool(devices, procs)
            try:
                futs = {p.submit(_call, (fn.__module__, fn.__name__, i, jobs[i])): i for i in todo}
                for f in as_completed(futs):
                    i, r = f.result()
                    out[i] = r
                todo = []
            except BrokenProcessPool:
                todo = [i for i in todo if out[i] is None]
                self.log("a worker process died (%d jobs unfinished); %s" % (len(todo), "retrying on a fresh pool" if attempt == 0 else "giving up"))
                self.close_pool(devices, procs)
                if attempt == 1:
                    raise RuntimeError("worker processes keep dying (out of memory?)")
                procs = max(1, (procs or NPROC) // 2)
        return out

    def close_pool(self, devices=1, procs=None):
        p = self._pools.pop((devices, procs), None)
        if p is not None:
            _kill_pool(p)

    def close(self):
        for p in self._pools.values():
            _kill_pool(p)
        self._pools = {}
        if self.scratch and os.path.isdir(self.scratch):
            shutil.rmtree(self.scratch, ignore_errors=True)


def _kill_pool(p):
    procs = list(getattr(p, "_processes", {}).values())
    try:
        p.shutdown(wait=False, cancel_futures=True)
    except Exception:
        pass
    for pr in procs:
        try:
            pr.terminate()
        except Exception:
            pass
    for pr in procs:
        try:
            pr.join(5)
        except Exception:
            pass


def _call(arg):
    mod, name, i, job = arg
    fn = getattr(importlib.import_module(mod), name)
    try:
        return i, fn(job)
    except Exception as e:  # a crashing worker job is a machinery error, surfaced by the check
        return i, {"__error__": "%s: %s" % (type(e).__name__, e), "__tb__": traceback.format_exc(), "job": job}
    finally:
        _housekeeping()


_JOBS_DONE = [0]


def _housekeeping():
    """Every solver instance leaves compiled executables (with embedded tables) in jax's caches;
    drop them regularly so that long runs stay within memory."""
    _JOBS_DONE[0] += 1
    if "jax" not in sys.modules:
        return
    try:
        with open("/proc/self/statm") as f:
            rss_gb = int(f.read().split()[1]) * os.sysconf("SC_PAGE_SIZE") / 2 ** 30
    except Exception:
        rss_gb = 99.0 if _JOBS_DONE[0] % 8 == 0 else 0.0
    if rss_gb > 1.2:
        import gc

        sys.modules["jax"].clear_caches()
        gc.collect()


def load_known():
    path = os.path.join(ROOT, "known_findings.json")
    if not os.path.exists(path):
        return {}
    with open(path) as f:
        data = json.load(f)
    known = {}
    for e in data.get("findings", []):
        known.setdefault(e["property"], {})[e["key"]] = e["what"]
    return known


def main(argv=None):
    ap = argparse.ArgumentParser()
    ap.add_argument("prop")
    ap.add_argument("--tier", default=os.environ.get("VERIF_TIER", "quick"), choices=["quick", "thorough"])
    ap.add_argument("--replay", default=None)
    a = ap.parse_args(argv)
    seed = int(os.environ.get("VERIF_SEED", "0") or 0)
    prop = a.prop
    os.chdir(ROOT)
    mod = importlib.import_module("mc.checks." + prop)
    ctx = Ctx(prop, a.tier, seed)
    t0 = time.time()
    rc = 0
    try:
        if a.replay:
            with open(a.replay) as f:
                rep = json.load(f)
            assert rep["property"] == prop, "replay file is for %s" % rep["property"]
            res = mod.replay(ctx, rep["case"])
            ctx.close()
            if res:
                print("REPLAY-VIOLATES property=%s key=%s :: %s" % (prop, rep["key"], res))
                return 1
            print("REPLAY-OK property=%s key=%s" % (prop, rep["key"]))
            return 0
        mod.run(ctx)
    except Exception:
        traceback.print_exc()
        print("MACHINERY-ERROR property=%s" % prop)
        rc = 2
    finally:
        ctx.close()
    known = load_known().get(prop, {})
    seen_known, fresh = {}, []
    for v in ctx.violations:
        if v["key"] in known:
            seen_known.setdefault(v["key"], v)
        else:
            fresh.append(v)
    for k, v in sorted(seen_known.items()):
        print("KNOWN-FINDING: property=%s %s :: %s" % (prop, k, known[k]))
    os.makedirs(os.path.join(ROOT, "replays"), exist_ok=True)
    printed = set()
    for v in fresh:
        if v["key"] in printed:
            continue
        printed.add(v["key"])
        h = hashlib.sha1(v["key"].encode()).hexdigest()[:10]
        path = os.path.join("replays", "%s-%s.json" % (prop, h))
        if len(printed) > 25:
            continue  # the first 25 distinct violations get a replay file and a line
        jdump({"property": prop, "key": v["key"], "what": v["what"], "case": v["case"], "tier": a.tier, "seed": seed}, path, indent=1)
        if len(printed) <= 25:
            print("VIOLATION property=%s replay=%s :: %s :: %s" % (prop, path, v["key"], v["what"][:300]))
    if len(printed) > 25:
        print("... %d further violations (no replay files beyond the first 25)" % (len(printed) - 25))
    if os.environ.get("VERIF_DUMP_VIOLATIONS"):
        # development aid (never read back at run time): every distinct violation of this run
        seen_k, dump = set(), []
        for v in ctx.violations:
            if v["key"] not in seen_k:
                seen_k.add(v["key"])
                dump.append({"property": prop, "key": v["key"], "what": v["what"]})
        jdump(dump, os.environ["VERIF_DUMP_VIOLATIONS"], indent=1)
    if fresh and rc == 0:
        rc = 1
    cov = ctx.cov
    cov["known_findings_reobserved"] = sorted(seen_known)
    cov["distinct_violation_keys"] = len(printed)
    if not cov["samples"]:
        cov["samples"] = ["(no sample recorded)"]
    ev = {
        "property_id": prop,
        "tier": a.tier,
        "seed": seed,
        "level": getattr(mod, "LEVEL", "model_checking"),
        "coverage": cov,
        "assumptions": ctx.assumptions,
        "wall_s": round(time.time() - t0, 2),
        "violations": len(printed),
    }
    os.makedirs(os.path.join(ROOT, "evidence"), exist_ok=True)
    jdump(ev, os.path.join(ROOT, "evidence", prop + ".json"), indent=1)
    try:
        import jsonschema

        sch = "/root/.vp/EVIDENCE.schema.json"
        if os.path.exists(sch):
            with open(sch) as f:
                jsonschema.validate(json.loads(jdump(ev)), json.load(f))
    except ImportError:
        pass
    print("%s tier=%s seed=%d states=%d transitions=%d traces=%d violations=%d known=%d wall=%.1fs rc=%d" % (
        prop, a.tier, seed, cov["states"], cov["transitions"], cov["traces_validated_against_impl"],
        len(printed), len(seen_known), time.time() - t0, rc))
    return rc


if __name__ == "__main__":
    sys.exit(main())
