#!/bin/bash
for n in "$@"; do /verif/scratch/confirm.sh $n /tmp/wt_$n; done
