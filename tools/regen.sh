#!/bin/bash
# regenerate every evidence file with the final code (quick tier, seed 0), sequentially
cd /verif
for c in C01 C02 C03 C04 C05 C06 C07 C08 C09 C10 C11 C12 C13 C14 C15 C16 C17 C18 C19 C20; do
  ./check $c --tier quick 2>&1 | grep -v KNOWN-FINDING | tail -1
done
