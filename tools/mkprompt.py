import json, sys
pid, wt, extra = sys.argv[1], sys.argv[2], (sys.argv[3] if len(sys.argv) > 3 else "")
p = next(json.loads(l) for l in open('/verif/properties.jsonl') if json.loads(l)['id'] == pid)
print(f"""You are helping test a verification harness by writing a *seeded defect* for the Python library `mdpax` (JAX-based MDP solvers: value / policy / relative / periodic / semi-async value iteration, perishable-inventory example problems, Orbax checkpointing).

Your private scratch git worktree of the library is at {wt} (source in {wt}/src/mdpax, tests in {wt}/tests). Work ONLY inside {wt}. Do not read or write /repo or /verif, and do not commit anything.

The library is normally imported from an editable install pointing elsewhere, so ALWAYS run Python with `PYTHONPATH={wt}/src` so that your worktree's code is what gets imported, e.g.
  cd {wt} && PYTHONPATH={wt}/src /venv/bin/python -m pytest -q -p no:cacheprovider tests/test_utils
(python is /venv/bin/python; there is no network; importing jax prints a harmless CUDA plugin error; JAX_PLATFORMS=cpu is fine.)

Here is a semantic property the library is supposed to satisfy:

  [{p['id']}] {p['title']}
  Statement: {p['statement']}
  Quantified over: {p['quantifier']['text']}

Your task: make ONE small, realistic change to the library source under {wt}/src/mdpax (the kind of slip a maintainer could plausibly make in a refactor: an off-by-one, a swapped argument, a stale variable, a wrong index/cursor, an operation moved before/after another, a dropped field, a wrong comparison...) such that
  1. the library still imports and the EXISTING test-suite still passes with your change (run the test files relevant to what you touched while iterating. Do NOT run the whole suite yourself - the machine is memory-constrained and a coordinator will run the complete suite on your patch afterwards with
       cd {wt} && PYTHONPATH={wt}/src /venv/bin/python -m pytest -q -p no:cacheprovider --timeout=1800 --no-cov --basetemp=/tmp/bt_{pid} --deselect "tests/test_solvers/test_periodic_value_iteration.py::test_matches_reference_policy"
     so reason carefully about which existing tests exercise the code you touch, and run exactly those test files (tests/test_utils is cheap; in tests/test_solvers and tests/test_problems avoid the m3 / hendrix-m3 parameterisations, which need >10 GB); your change is rejected if any existing test fails);
  2. the change BREAKS the property above; and
  3. the breakage needs something specific to manifest -- a particular interleaving or crash/kill point, a multi-step sequence of operations, an unusual but valid input or parameter combination, a particular layout (batch size / device count / padding), or two cooperating sites that each look fine alone -- NOT something ordinary default use would expose at once.
{extra}
Other people have already used these ideas, so pick something DIFFERENT: (a) `jnp.any(..., axis=1)` -> `jnp.all` in policy iteration's change count; (b) a round-robin reshape in BatchProcessor.prepare_batches without the matching inverse; (c) `values.at[...]` instead of `current_values.at[...]` in the semi-async scan; (d) dropping the initial `value_history[0] = values` in periodic value iteration; (e) an extra `config_path.unlink()` before `os.replace` when saving the config; (f) using a per-call loop counter instead of `self.iteration` for the periodic-checkpoint test; (g) an off-by-one in De Moor's half-integer CDF grid; (h) np.tile instead of np.repeat for Hendrix state bounds; (i) RVI gain read before the sweep (stale by one sweep); (j) hstack instead of vstack when gathering un-padded multi-device results; (k) a wrong wrap of prev_index in the undiscounted periodic span; (l) `if checkpoint_frequency:` instead of `is not None` in restore(); (m) RVI restore delegating to super() and dropping the gain; (n) De Moor receiving in_transit[1] instead of [-1]; (o) Mirjalili logits pairing c_0 with the wrong c_1; (p) abs(max(.)) instead of max(abs(.)) in the matrix builder; (q) wrong nesting of the multi-device batch-size clamp; (r) skipping the mins offset when mins.sum()==0; (s) creating the gamma array before x64 is enabled; (t) abs() inside the span computation; (u) reading self.key inside the jitted shuffle; (v) lazily captured initial_values in policy iteration; (w) history_index % period in the periodic solver_state; (x) skipping policy iteration's final save on multiples of the frequency; (y) using self.gamma instead of the gamma argument in a kernel; (z) moving the semi-async padding mask from the stored to the emitted value; (aa) clipping the policy-lookup index to batch_size-1; (ab) skipping policy extraction in periodic VI when a later solve() ends at its limit; (ac) load_checkpoint ignoring the requested step; (ad) Mirjalili shortage computed before the per-age clip; (ae) normalising the explicit transition matrix by the successor's row sum; (af) not validating the length of Mirjalili's c_1; (ag) RVI initial gain from values[0]; (ah) Mirjalili receipt quantities enumerated up to max_demand; (ai) Mirjalili per-age clip at max_demand; (aj) Hendrix substitution binomial counting non-substituters; (ak) unbatch_results keeping only the last trailing dimension; (al) index strides cumulated in the wrong order; (am) shuffled padding mask built with [-n_pad:]; (an) restore()'s max_checkpoints override nested under the frequency override; (ao) policy iteration assigning the improved policy after the periodic save.
(Several people work on this machine at the same time: always pass a private `--basetemp` to pytest as shown, expect runs to be slower than usual, and never use `git stash`.)

Deliverables, all inside {wt}:
  - the modified source (leave it in the working tree, uncommitted);
  - `{wt}/patch.diff` produced by `git -C {wt} diff -- src > {wt}/patch.diff`;
  - `{wt}/demo.py`: a small self-contained program (run as `PYTHONPATH={wt}/src /venv/bin/python {wt}/demo.py`) that exits with status 1 and prints what went wrong when run against your modified source, and exits 0 against the unmodified source. Verify BOTH yourself. NEVER use `git stash` (the stash is shared between all worktrees of the repository and other agents are working concurrently): use `git -C {wt} apply -R {wt}/patch.diff` to get the unmodified source and `git -C {wt} apply {wt}/patch.diff` to put your change back.
  - In your final message report: the file/function you changed, why it breaks the property, exactly what is needed for it to manifest, which tests you ran and their outcome, and the output of demo.py with and without the change.

Prefer a subtle change over an obvious one; avoid changes that merely crash on every use. Keep the diff to a few lines.""")
