#!/bin/bash
# replay_seeded.sh [Sxx-name ...] : apply each stored patch to a scratch copy of /repo/src (never /repo itself),
# run the first check listed under "breaks" against it (quick tier) and report whether it is detected.
cd /verif
names=("$@"); [ ${#names[@]} -eq 0 ] && names=($(ls seeded))
for n in "${names[@]}"; do
  d=$(mktemp -d /dev/shm/seedrun.XXXXXX); cp -r /repo/src $d/src
  (cd $d && patch -p1 -s < /verif/seeded/$n/patch.diff) || { echo "$n: patch does not apply"; rm -rf $d; continue; }
  for c in $(python3 -c "import json;print(' '.join(json.load(open('/verif/seeded/$n/meta.json'))['breaks']))"); do
    cp evidence/$c.json $d/ev.bak
    PYTHONPATH=$d/src ./check $c --tier quick > $d/log 2>&1; rc=$?
    cp $d/ev.bak evidence/$c.json; rm -rf replays
    echo "$n vs $c: rc=$rc $(grep -c '^VIOLATION' $d/log) violation lines"
    [ $rc -eq 1 ] && break   # one detecting check is enough (C02 is single-device by design and silent on S02)
  done
  rm -rf $d
done
