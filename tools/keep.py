"""keep.py <seed-name> <agent-id> <props comma> <json-meta-file>: store a confirmed seeded change under /verif/seeded/<seed-name>/"""
import json, os, shutil, sys
name, aid, props, metaf = sys.argv[1:5]
d = "/verif/seeded/" + name
os.makedirs(d, exist_ok=True)
cf = "/tmp/cf_" + aid
shutil.copy(cf + "/patch.diff", d + "/patch.diff")
demo = open(cf + "/demo.py").read().replace(cf, "<WORKTREE>").replace("/tmp/wt_" + aid, "<WORKTREE>")
open(d + "/demo.py", "w").write(demo)
meta = json.load(open(metaf))
meta["breaks"] = props.split(",")
log = open("/verif/scratch/confirm_%s.log" % aid).read()
meta["confirmed"] = {
    "how": "fresh scratch worktree /tmp/cf_%s of /repo HEAD: demo.py on unmodified source, `git apply patch.diff`, demo.py on modified source, then the existing test-suite (BASELINE command, coverage off, private --basetemp, the always-failing Mirjalili periodic test deselected); the worktree was removed afterwards" % aid,
    "demo_exit_unmodified": int(log.split("== demo on unmodified source")[1].split("exit=")[1].split()[0]),
    "demo_exit_modified": int(log.split("== demo on modified source")[1].split("exit=")[1].split()[0]),
    "suite": [l for l in log.splitlines() if " passed" in l or " failed" in l][-1] if any(" passed" in l for l in log.splitlines()) else "NOT RUN",
}
json.dump(meta, open(d + "/meta.json", "w"), indent=1)
print(name, meta["confirmed"])
