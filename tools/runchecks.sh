#!/bin/bash
# runchecks.sh <name> <check ids...> : run quick checks against the confirmed seeded change (scratch worktree /tmp/cf_<name>, selected with PYTHONPATH)
name=$1; shift
cf=/tmp/cf_$name
cd /verif
for c in "$@"; do
  cp evidence/$c.json /tmp/ev_$c.bak 2>/dev/null
  PYTHONPATH=$cf/src ./check $c --tier ${TIER:-quick} > /verif/scratch/run_${name}_$c.log 2>&1
  echo "$c rc=$? $(grep -c '^VIOLATION' /verif/scratch/run_${name}_$c.log) violation lines :: $(grep '^VIOLATION' /verif/scratch/run_${name}_$c.log | head -1 | cut -c1-260)"
  tail -1 /verif/scratch/run_${name}_$c.log | cut -c1-200
  cp /tmp/ev_$c.bak evidence/$c.json 2>/dev/null
  rm -rf replays
done
