#!/bin/bash
# confirm.sh <name> <agent-worktree> : independent confirmation of a seeded change in a fresh scratch worktree
set -u
name=$1; wt=$2
cf=/tmp/cf_$name
out=/verif/scratch/confirm_$name.log
git -C /repo worktree remove --force $cf >/dev/null 2>&1
git -C /repo worktree add -q --detach $cf HEAD || exit 9
cp $wt/patch.diff $cf/patch.diff; cp $wt/demo.py $cf/demo.py
sed -i "s#$wt#$cf#g" $cf/demo.py
{
echo "== patch"; cat $cf/patch.diff
echo "== demo on unmodified source"
(cd $cf && PYTHONPATH=$cf/src JAX_PLATFORMS=cpu timeout 1800 /venv/bin/python demo.py 2>&1 | grep -v -i -e cuda -e "^  " -e Traceback -e plugin | tail -8; echo "exit=${PIPESTATUS[0]}")
git -C $cf apply $cf/patch.diff && echo "== applied"
echo "== demo on modified source"
(cd $cf && PYTHONPATH=$cf/src JAX_PLATFORMS=cpu timeout 1800 /venv/bin/python demo.py 2>&1 | grep -v -i -e cuda -e "^  " -e Traceback -e plugin | tail -12; echo "exit=${PIPESTATUS[0]}")
echo "== existing test-suite on modified source"
(cd $cf && PYTHONPATH=$cf/src /venv/bin/python -m pytest -q -p no:cacheprovider --timeout=1800 --no-cov --basetemp=/tmp/bt_$name --deselect "tests/test_solvers/test_periodic_value_iteration.py::test_matches_reference_policy" 2>&1 | tail -6; echo "pytest_exit=${PIPESTATUS[0]}")
} > $out 2>&1
grep -e "^exit=" -e "pytest_exit" -e passed -e failed $out
